#!/venv/bin/python
"""AST translator: straight-line codecs of /repo -> lean/Msmart/Generated/Codec.lean   (DESIGN §3.1b)

The functions listed in SPECS are read from the CURRENT source text of /repo, symbolically executed
(assignments, augmented assignments, if/else with early return, conditional expressions, `& | ^ << >> + - ~`,
comparisons, bool()/int()/len(), `bytes([...])`, `bytearray(n)` with constant item assignment, constant
indexing of a bytes argument, one-level `for` loops over a bytes argument) and emitted as Lean definitions over
the operators of `Msmart/Py/Ops.lean`.  Temporaries are inlined, so renaming / reordering of independent
statements does not change the output; any semantic change does.  `Lemmas/CodecEq.lean` proves each emitted
definition equal to the hand-written Model function FOR ALL INPUTS; the property theorems are then restated
about the translated code.

A construct outside the supported subset is NOT a violation: the function is emitted as `unsupported`
(a definition that aliases the Model, flagged in `translated : Bool`) and the tie for it remains the
correspondence check; the reason is reported in evidence (`translator`).

Numbers: Python ints -> `Int`; bools -> `Bool`; floats are exact decimals in hundredths (`fix`, an `Int`), which is
exact for every float operation these codecs perform (x.0, x.5, n/2, n/10 and sums of those) up to the float
rounding that the correspondence harness compares with its exactness guard.
"""
import ast
import os
import textwrap

REPO = os.environ.get("MSMART_REPO", "/repo")
SCALE = 100


class Unsupported(Exception):
    pass


class V:
    """symbolic value: kind in int|bool|fix|none|opt:<k>|seq|bytesvar|tuple|ilist ; lean = Lean term"""

    def __init__(self, kind, lean=None, items=None, const=None):
        self.kind = kind
        self.lean = lean
        self.items = items      # seq: list of V(int); tuple: list of V
        self.const = const      # python constant if statically known

    def __repr__(self):
        return f"V({self.kind},{self.lean})"


def paren(s):
    s = s.strip()
    if s.startswith("(") and _balanced(s[1:-1]) and s.endswith(")"):
        return s
    if all(c.isalnum() or c in "_.'" for c in s):
        return s
    return "(" + s + ")"


def _balanced(s):
    d = 0
    for c in s:
        if c == "(":
            d += 1
        elif c == ")":
            d -= 1
            if d < 0:
                return False
    return d == 0


def lit_int(n):
    return V("int", str(n) if n >= 0 else f"({n})", const=n)


def lit_fix(x):
    n = round(x * SCALE)
    if abs(n - x * SCALE) > 1e-9:
        raise Unsupported(f"float literal {x!r} is not a multiple of 1/{SCALE}")
    return V("fix", str(n) if n >= 0 else f"({n})", const=n)


def to_int_term(v):
    """Python int value of v (bools count as 0/1)"""
    if v.kind == "int":
        return v.lean
    if v.kind == "bool":
        return f"(if {v.lean} then 1 else 0)"
    raise Unsupported(f"int expected, got {v.kind}")


def to_fix_term(v):
    if v.kind == "fix":
        return v.lean
    if v.kind in ("int", "bool"):
        if v.const is not None and v.kind == "int":
            return str(v.const * SCALE) if v.const >= 0 else f"({v.const * SCALE})"
        return f"({SCALE} * {paren(to_int_term(v))})"
    raise Unsupported(f"number expected, got {v.kind}")


def truthy(v):
    """Lean Bool term for Python truthiness"""
    if v.kind == "bool":
        return v.lean
    if v.kind in ("int", "fix"):
        return f"decide ({v.lean} ≠ 0)"
    if v.kind == "none":
        return "false"
    raise Unsupported(f"truthiness of {v.kind}")


LEAN_TYPES = {"optbytes": "Option Bytes", "ints": "List Int", "int": "Int", "bool": "Bool", "fix": "Int", "opt:int": "Option Int", "opt:fix": "Option Int",
              "opt:bool": "Option Bool", "bytes": "Bytes"}


class Scope:
    """one monadic scope: index reads bound here, in order of first use"""

    def __init__(self, parent=None):
        self.parent = parent
        self.reads = []   # (name, term)

    def lookup(self, key):
        s = self
        while s:
            for k, name in s.reads:
                if k == key:
                    return name
            s = s.parent
        return None


class Tr:
    def __init__(self, spec, funcdef, classdef=None, module_consts=None, generated=None):
        self.spec = spec
        self.fn = funcdef
        self.cls = classdef
        self.consts = module_consts or {}
        self.generated = generated or {}     # python method name -> (lean name, arg kinds, result kind)
        self.effectful = spec.get("effectful", False)
        self.obligations = []
        self.err_map = None
        self.fresh = 0
        self.native = spec.get("native_bytes", False)

    # ---- expressions -------------------------------------------------------------------------
    def expr(self, e, st, sc):
        if isinstance(e, ast.Constant):
            c = e.value
            if c is None:
                return V("none", "none")
            if isinstance(c, bool):
                return V("bool", "true" if c else "false", const=c)
            if isinstance(c, int):
                return lit_int(c)
            if isinstance(c, float):
                return lit_fix(c)
            if isinstance(c, bytes):
                if self.native:
                    return V("bytes", "([" + ", ".join(str(x) for x in c) + "] : Bytes)", const=c)
                return V("seq", items=[lit_int(x) for x in c])
            raise Unsupported(f"constant {c!r}")
        if isinstance(e, ast.Name):
            if e.id in st:
                return st[e.id]
            if e.id in self.consts:
                return lit_int(self.consts[e.id])
            if e.id in self.spec.get("class_tags", {}):
                return lit_int(self.spec["class_tags"][e.id])        # a class used as a value: its tag
            raise Unsupported(f"name {e.id}")
        if isinstance(e, ast.Attribute):
            if isinstance(e.value, ast.Name) and e.value.id in self.spec.get("param_objects", ()):
                key = e.value.id + "." + e.attr
                if key in st:
                    return st[key]
                raise Unsupported(f"attribute {key} of the parameter object is not an input")
            if isinstance(e.value, ast.Name) and (e.value.id + "." + e.attr) in self.spec.get("bytes_consts", {}) and self.native:
                # a class-level bytes constant that harness/extract.py regenerates from the module (Generated/Consts.lean)
                return V("bytes", self.spec["bytes_consts"][e.value.id + "." + e.attr])
            if not self.is_class_state(e) and isinstance(e.value, ast.Name) and e.value.id not in st \
                    and e.attr in self.spec.get("module_enums", {}).get(e.value.id, {}):
                return lit_int(self.spec["module_enums"][e.value.id][e.attr])      # `ResponseId.STATE`: an IntEnum member
            if self.is_class_state(e):
                if "cls." + e.attr in st:
                    return st["cls." + e.attr]
                raise Unsupported("class attribute read before it is an input: " + e.attr)
            if isinstance(e.value, ast.Name) and e.value.id == "self":
                key = "self." + e.attr
                if key in st:
                    return st[key]
                if e.attr in self.spec.get("class_consts", {}):
                    return lit_int(self.spec["class_consts"][e.attr])
                raise Unsupported(f"attribute self.{e.attr} is not an input")
            if isinstance(e.value, ast.Name) and e.value.id in st and st[e.value.id].kind == "obj":
                key = e.value.id + "." + e.attr
                if key in st:
                    return st[key]
                raise Unsupported("attribute of a new object read before it is set: " + key)
            if isinstance(e.value, ast.Attribute) and isinstance(e.value.value, ast.Name) \
                    and e.value.value.id == self.spec.get("class_name"):
                nested = self.spec.get("nested_consts", {}).get(e.value.attr, {})
                if e.attr in nested:
                    return lit_int(nested[e.attr])
            if isinstance(e.value, ast.Attribute) and isinstance(e.value.value, ast.Name) and e.value.value.id in ("self", "cls"):
                nested = self.spec.get("nested_consts", {}).get(e.value.attr, {})
                if e.attr in nested:
                    return lit_int(nested[e.attr])
            raise Unsupported("attribute " + ast.dump(e)[:60])
        if isinstance(e, ast.IfExp) and isinstance(e.test, ast.Compare) and len(e.test.ops) == 1 \
                and isinstance(e.test.ops[0], (ast.IsNot, ast.Is)) and isinstance(e.test.comparators[0], ast.Constant) \
                and e.test.comparators[0].value is None:
            # `v if v is not None else d`  /  `d if v is None else v`
            some_branch, none_branch = (e.body, e.orelse) if isinstance(e.test.ops[0], ast.IsNot) else (e.orelse, e.body)
            if ast.dump(some_branch) == ast.dump(e.test.left):
                v = self.expr(e.test.left, st, sc)
                d = self.expr(none_branch, st, sc)
                if v.kind.startswith("opt:"):
                    k = v.kind[4:]
                    dt = {"int": to_int_term, "fix": to_fix_term, "bool": lambda x: x.lean if x.kind == "bool" else truthy(x)}[k](d)
                    return V(k, f"({v.lean}.getD {paren(dt)})")
                if v.kind in ("int", "bool", "fix", "bytes"):
                    return v                     # never None: the default is dead
        if isinstance(e, ast.IfExp):
            test, swapped = canon_test(e.test)
            e = ast.IfExp(test=test, body=(e.orelse if swapped else e.body), orelse=(e.body if swapped else e.orelse))
            c = self.cond(e.test, st, sc)
            n0 = len(sc.reads)
            a = self.expr(e.body, st, sc)
            b = self.expr(e.orelse, st, sc)
            if len(sc.reads) != n0:
                raise Unsupported("an operation that can raise inside a conditional expression")
            return self.ite(c, a, b)
        if isinstance(e, ast.BoolOp):
            # only in boolean position / over bools
            vals = [self.expr(x, st, sc) for x in e.values]
            if all(v.kind == "bool" for v in vals):
                op = " && " if isinstance(e.op, ast.And) else " || "
                return V("bool", "(" + op.join(paren(v.lean) for v in vals) + ")")
            if isinstance(e.op, ast.Or) and len(vals) == 2 and vals[0].kind.startswith("opt:"):
                # `v or d` with an optional v: v when it is truthy (hence not None), else d
                a, d = vals
                k = a.kind[4:]
                dt = {"int": to_int_term, "fix": to_fix_term, "bool": lambda x: x.lean if x.kind == "bool" else truthy(x)}[k](d)
                zero = {"int": "0", "fix": "0", "bool": "false"}[k]
                return V(k, f"(if decide ({a.lean}.getD {zero} ≠ {zero}) then {a.lean}.getD {zero} else {paren(dt)})")
            if isinstance(e.op, ast.Or) and len(vals) == 2 and vals[0].kind in ("int", "fix") and vals[1].kind in ("int", "fix"):
                a, d = vals
                if a.kind == "fix" or d.kind == "fix":
                    return V("fix", f"(if decide ({to_fix_term(a)} ≠ 0) then {to_fix_term(a)} else {to_fix_term(d)})")
                return V("int", f"(if decide ({a.lean} ≠ 0) then {a.lean} else {to_int_term(d)})")
            raise Unsupported("and/or over non-bool operands outside a condition")
        if isinstance(e, ast.UnaryOp):
            v = self.expr(e.operand, st, sc)
            if isinstance(e.op, ast.Not):
                return V("bool", f"(!{paren(truthy(v))})")
            if isinstance(e.op, ast.USub):
                if v.kind == "fix":
                    return V("fix", f"(-{paren(v.lean)})", const=(-v.const if v.const is not None else None))
                return V("int", f"(-{paren(to_int_term(v))})", const=(-v.const if v.const is not None else None))
            if isinstance(e.op, ast.Invert):
                return V("int", f"(-{paren(to_int_term(v))} - 1)")
            raise Unsupported("unary op")
        if isinstance(e, ast.BinOp):
            return self.binop(e.op, self.expr(e.left, st, sc), self.expr(e.right, st, sc))
        if isinstance(e, ast.Compare):
            return V("bool", self.compare(e, st, sc))
        if isinstance(e, ast.Subscript):
            if isinstance(e.value, ast.Name) and e.value.id in self.spec.get("tables", {}) and e.value.id not in st:
                # lookup in a module-level constant list: the index must be provably in range (`expr & mask`, mask < len)
                tname, tlen = self.spec["tables"][e.value.id]
                iv = self.expr(e.slice, st, sc)
                import re as _re
                m = _re.fullmatch(r"Py\.band .* (\d+)", iv.lean or "")
                if iv.kind != "int" or not m or int(m.group(1)) >= tlen:
                    raise Unsupported("table index not of the form `expr & mask` with mask < len(table)")
                return V("int", f"Py.tableGet {tname} {paren(iv.lean)}")
            base = self.expr(e.value, st, sc)
            if base.kind == "bytes":
                if isinstance(e.slice, ast.Slice):
                    if e.slice.step is not None:
                        raise Unsupported("slice step")
                    return V("bytes", f"Py.slice {paren(base.lean)} {self.slice_bound(e.slice.lower, st, sc, lower=True)} "
                                      f"{self.slice_bound(e.slice.upper, st, sc)}")
                iv = self.expr(e.slice, st, sc)
                if iv.kind == "int" and iv.const is not None:
                    name = self.effect(sc, f"Py.indexI {paren(base.lean)} {paren(str(iv.const))}", "b", key=(base.lean, iv.const))
                    return V("int", name)
                raise Unsupported("non-constant index into bytes")
            if isinstance(e.slice, ast.Slice) and self.is_seq(base):
                if e.slice.step is not None:
                    raise Unsupported("slice step")
                return V("ints", f"Py.slice {paren(self.seq_term(base))} {self.slice_bound(e.slice.lower, st, sc, lower=True)} "
                                 f"{self.slice_bound(e.slice.upper, st, sc)}")
            if base.kind == "bytesvar":
                idx = e.slice
                if isinstance(idx, ast.Constant) and isinstance(idx.value, int) and idx.value >= 0:
                    return self.read(base, idx.value, sc)
                if isinstance(idx, ast.UnaryOp) and isinstance(idx.op, ast.USub) and isinstance(idx.operand, ast.Constant) \
                        and isinstance(idx.operand.value, int):
                    return self.read_general(f"Py.ints {base.lean}", -idx.operand.value, sc)
                raise Unsupported("non-constant index into bytes argument")
            if base.kind == "seq":
                idx = e.slice
                if isinstance(idx, ast.Constant) and isinstance(idx.value, int) and 0 <= idx.value < len(base.items):
                    return base.items[idx.value]
            raise Unsupported("subscript of " + base.kind)
        if isinstance(e, ast.Call):
            return self.call(e, st, sc)
        if isinstance(e, ast.List):
            return V("ilist", items=[self.expr(x, st, sc) for x in e.elts])
        if isinstance(e, ast.Tuple):
            return V("tuple", items=[self.expr(x, st, sc) for x in e.elts])
        raise Unsupported("expression " + type(e).__name__)

    def read(self, base, i, sc):
        key = (base.lean, i)
        name = sc.lookup(key)
        if name is None:
            if getattr(sc, "pure_branch", False):
                raise Unsupported("first read of an index inside a non-returning branch")
            name = f"{base.lean}_{i}"
            sc.reads.append((key, name))
        return V("int", name)

    def effect(self, sc, term, hint="v", key=None):
        """an effectful sub-computation (`R α`) in expression position: bound here, in source order"""
        if key is not None:
            name = sc.lookup(key)
            if name is not None:
                return name
        if getattr(sc, "pure_branch", False):
            raise Unsupported("effect inside a non-returning branch")
        if self.err_map:
            cls_, err = self.err_map
            term = f"Py.mapErr \"{cls_}\" {err} ({term})"
        k = key if key is not None else ("effect", len(sc.reads), id(sc))
        name = "%s_%d" % (hint, self.fresh)
        self.fresh += 1
        sc.reads.append((k, name))
        sc.custom = getattr(sc, "custom", {})
        sc.custom[k] = term
        return name

    def read_general(self, term, i, sc):
        """`seq[i]` for a constant (possibly negative) index: IndexError outside"""
        key = (term, i)
        name = sc.lookup(key)
        if name is None:
            if getattr(sc, "pure_branch", False):
                raise Unsupported("first read of an index inside a non-returning branch")
            name = "item_%d%s" % (len(sc.reads), "m" if i < 0 else "")
            sc.reads.append((key, name))
            sc.general = getattr(sc, "general", set()) | {key}
        return V("int", name)

    def ite(self, c, a, b):
        if a.kind == b.kind and a.lean == b.lean and a.kind not in ("seq", "ilist", "tuple"):
            return a
        if a.kind == "none" and b.kind == "none":
            return a
        if a.kind == "none" or b.kind == "none" or a.kind.startswith("opt:") or b.kind.startswith("opt:"):
            ka = a.kind[4:] if a.kind.startswith("opt:") else a.kind
            kb = b.kind[4:] if b.kind.startswith("opt:") else b.kind
            inner = ka if ka != "none" else kb
            if kb != "none" and ka != "none" and ka != kb:
                if {ka, kb} <= {"int", "fix", "bool"} and "fix" in (ka, kb):
                    inner = "fix"
                else:
                    raise Unsupported(f"join of optional {ka} and {kb}")
            return V("opt:" + inner, f"(if {c} then {self.as_opt(a, inner)} else {self.as_opt(b, inner)})")
        if a.kind == "seq" and b.kind == "seq":
            return V("ilistexpr", f"(if {c} then {self.seq_term(a)} else {self.seq_term(b)})")
        if a.kind == b.kind == "bool":
            return V("bool", f"(if {c} then {a.lean} else {b.lean})")
        if a.kind == b.kind == "bytes":
            return V("bytes", f"(if {c} then {a.lean} else {b.lean})")
        if a.kind == "fix" or b.kind == "fix":
            return V("fix", f"(if {c} then {to_fix_term(a)} else {to_fix_term(b)})")
        if a.kind in ("int", "bool") and b.kind in ("int", "bool"):
            return V("int", f"(if {c} then {to_int_term(a)} else {to_int_term(b)})")
        raise Unsupported(f"join of {a.kind} and {b.kind}")

    def as_opt(self, v, inner):
        if v.kind == "none":
            return "none"
        if v.kind.startswith("opt:"):
            if v.kind[4:] == inner:
                return v.lean
            raise Unsupported("optional kind change")
        if inner == "fix":
            return f"some {paren(to_fix_term(v))}"
        if inner == "int":
            return f"some {paren(to_int_term(v))}"
        if inner == "bool" and v.kind == "bool":
            return f"some {paren(v.lean)}"
        raise Unsupported(f"cannot make optional {inner} from {v.kind}")

    def seq_term(self, v):
        """Lean term of type `List Int` for any byte-sequence value"""
        if v.kind == "seq":
            return "[" + ", ".join(to_int_term(x) for x in v.items) + "]"
        if v.kind in ("ilistexpr", "ints"):
            return v.lean
        if v.kind == "bytesvar":
            return f"Py.ints {v.lean}"
        raise Unsupported("byte sequence expected, got " + v.kind)

    def bytes_term(self, v):
        """Lean term of type `Bytes` (native mode)"""
        if v.kind == "bytes":
            return v.lean
        if v.kind == "seq" and all(x.kind == "int" and x.const is not None and 0 <= x.const <= 255 for x in v.items):
            return "([" + ", ".join(str(x.const) for x in v.items) + "] : Bytes)"
        raise Unsupported("bytes expected, got " + v.kind)

    @staticmethod
    def is_seq(v):
        return v.kind in ("seq", "ilistexpr", "ints", "bytesvar")

    def slice_bound(self, b, st, sc, lower=False):
        if b is None:
            return "none"
        v = self.expr(b, st, sc)
        if lower and v.kind == "int" and v.const == 0:
            return "none"                      # x[0:n] is x[:n]
        return f"(some {paren(to_int_term(v))})"

    def binop(self, op, a, b):
        ck = None
        if isinstance(op, ast.Add) and (a.kind == "bytes" or b.kind == "bytes"):
            return V("bytes", f"({self.bytes_term(a)} ++ {self.bytes_term(b)})")
        if isinstance(op, ast.Add) and self.is_seq(a) and self.is_seq(b):
            if a.kind == "seq" and b.kind == "seq":
                return V("seq", items=list(a.items) + list(b.items))
            return V("ints", f"({self.seq_term(a)} ++ {self.seq_term(b)})")
        if isinstance(op, (ast.BitAnd, ast.BitOr, ast.BitXor)):
            if a.kind == "bool" and b.kind == "bool":
                sym = {"BitAnd": "&&", "BitOr": "||", "BitXor": "!="}[type(op).__name__]
                return V("bool", f"({paren(a.lean)} {sym} {paren(b.lean)})")
            x, y = to_int_term(a), to_int_term(b)
            if isinstance(op, ast.BitAnd):
                # mask must be a non-negative literal (either side)
                if b.const is not None and b.kind == "int" and b.const >= 0:
                    return V("int", f"Py.band {paren(x)} {b.const}")
                if a.const is not None and a.kind == "int" and a.const >= 0:
                    return V("int", f"Py.band {paren(y)} {a.const}")
                return V("int", f"Py.land {paren(x)} {paren(y)}")
            fn = "Py.bor" if isinstance(op, ast.BitOr) else "Py.bxor"
            # commutative and associative: operands of a chain flattened and sorted, rebuilt left-nested
            ops_a = getattr(a, "chain", None) if getattr(a, "chain_fn", None) == fn else None
            ops_b = getattr(b, "chain", None) if getattr(b, "chain_fn", None) == fn else None
            operands = sorted((ops_a or [x]) + (ops_b or [y]))
            lean = operands[0]
            for t in operands[1:]:
                lean = f"{fn} {paren(lean)} {paren(t)}"
            v = V("int", lean)
            v.chain, v.chain_fn = operands, fn
            return v
        if isinstance(op, (ast.LShift, ast.RShift)):
            if b.const is None or b.kind != "int" or b.const < 0:
                raise Unsupported("shift by a non-literal amount")
            sym = "<<<" if isinstance(op, ast.LShift) else ">>>"
            return V("int", f"({paren(to_int_term(a))} {sym} {b.const})")
        if isinstance(op, ast.Mod) and a.kind in ("int", "bool") and b.kind == "int" and b.const is not None \
                and b.const >= 2 and (b.const & (b.const - 1)) == 0:
            return V("int", f"Py.band {paren(to_int_term(a))} {b.const - 1}")      # x % 2^k == x & (2^k - 1) for every int
        if isinstance(op, ast.Add) and a.kind == "int" and b.kind == "int":
            # sums of ints in a canonical shape: non-constant terms in text order, then the folded constant
            ta, ca = getattr(a, "sum_terms", None) or ([a.lean] if a.const is None else []), getattr(a, "sum_const", a.const or 0)
            tb, cb = getattr(b, "sum_terms", None) or ([b.lean] if b.const is None else []), getattr(b, "sum_const", b.const or 0)
            terms, c = sorted(ta + tb), ca + cb
            if not terms:
                return lit_int(c)
            lean = " + ".join(paren(t) for t in terms) + (f" + {c}" if c > 0 else f" - {-c}" if c < 0 else "")
            v = V("int", "(" + lean + ")" if (len(terms) > 1 or c != 0) else terms[0])
            v.sum_terms, v.sum_const = terms, c
            return v
        if isinstance(op, (ast.Add, ast.Sub, ast.Mult)):
            sym = {"Add": "+", "Sub": "-", "Mult": "*"}[type(op).__name__]
            if a.kind == "fix" or b.kind == "fix":
                if isinstance(op, ast.Mult):
                    raise Unsupported("float multiplication")
                if isinstance(op, ast.Add):
                    # sums in hundredths in a canonical shape too: non-constant terms in text order, then the constant
                    def parts(v):
                        if getattr(v, "fsum_terms", None) is not None:
                            return list(v.fsum_terms), v.fsum_const
                        t = to_fix_term(v)
                        if v.const is not None and v.kind in ("fix", "int"):
                            return [], (v.const if v.kind == "fix" else v.const * SCALE)
                        return [t], 0
                    ta, ca = parts(a)
                    tb, cb = parts(b)
                    terms, c = sorted(ta + tb), ca + cb
                    if not terms:
                        return V("fix", str(c) if c >= 0 else f"({c})", const=c)
                    lean = " + ".join(paren(t) for t in terms) + (f" + {c}" if c > 0 else f" - {-c}" if c < 0 else "")
                    v = V("fix", "(" + lean + ")" if (len(terms) > 1 or c != 0) else terms[0])
                    v.fsum_terms, v.fsum_const = terms, c
                    return v
                return V("fix", f"({to_fix_term(a)} {sym} {to_fix_term(b)})")
            if a.const is not None and b.const is not None and a.kind == b.kind == "int":
                return lit_int({"+": a.const + b.const, "-": a.const - b.const, "*": a.const * b.const}[sym])
            return V("int", f"({to_int_term(a)} {sym} {to_int_term(b)})", const=ck)
        if isinstance(op, ast.Div):
            # true division by a literal that divides the scale: exact in hundredths
            if b.const is None or b.kind not in ("int",) or b.const <= 0:
                raise Unsupported("division by a non-literal")
            if a.kind in ("int", "bool"):
                if SCALE % b.const != 0:
                    raise Unsupported(f"int / {b.const} is not exact in 1/{SCALE}")
                return V("fix", f"({SCALE // b.const} * {paren(to_int_term(a))})")
            raise Unsupported("division of a float")
        if isinstance(op, ast.FloorDiv):
            if a.kind in ("int", "bool") and b.kind in ("int", "bool"):
                return V("int", f"({to_int_term(a)} / {to_int_term(b)})")   # Int./ is floor for positive divisors (Int.div = ediv)
            raise Unsupported("floor division of floats")
        if isinstance(op, ast.Mod):
            if a.kind in ("int", "bool") and b.kind == "int" and b.const is not None and b.const > 0:
                return V("int", f"({to_int_term(a)} % {b.const})")
            raise Unsupported("modulo")
        raise Unsupported("binary op " + type(op).__name__)

    def compare(self, e, st, sc):
        if len(e.ops) == 1 and isinstance(e.ops[0], (ast.In, ast.NotIn)) and isinstance(e.comparators[0], (ast.List, ast.Tuple)) \
                and e.comparators[0].elts:
            # `x in [A, B]`: x == A or x == B (ints; the elements are evaluated first, none of them can raise here)
            left = self.expr(e.left, st, sc)
            elems = [self.expr(x, st, sc) for x in e.comparators[0].elts]
            if left.kind != "int" or any(x.kind != "int" for x in elems):
                raise Unsupported("membership test over non-ints")
            terms = sorted(f"decide ({' = '.join(sorted([to_int_term(left), to_int_term(x)]))})" for x in elems)
            t = "(" + " || ".join(terms) + ")"
            return t if isinstance(e.ops[0], ast.In) else f"(!{t})"
        parts = []
        left = self.expr(e.left, st, sc)
        for op, rhs in zip(e.ops, e.comparators):
            right = self.expr(rhs, st, sc)
            if isinstance(op, (ast.Is, ast.IsNot)) and right.kind == "none" and left.kind.startswith("opt:"):
                parts.append(f"{paren(left.lean)}.isNone" if isinstance(op, ast.Is) else f"{paren(left.lean)}.isSome")
                left = right
                continue
            if isinstance(op, (ast.Is, ast.IsNot)) and right.kind == "none" and left.kind in ("int", "bool", "fix", "bytes"):
                parts.append("false" if isinstance(op, ast.Is) else "true")
                left = right
                continue
            if isinstance(op, (ast.Is, ast.IsNot)) and right.kind == "none" and left.kind == "optbytes":
                parts.append(f"{paren(left.lean)}.isNone" if isinstance(op, ast.Is) else f"{paren(left.lean)}.isSome")
                left = right
                continue
            if left.kind == "none" or right.kind == "none":
                raise Unsupported("comparison with None")
            if (left.kind in ("bytes", "optbytes") or right.kind in ("bytes", "optbytes")) and isinstance(op, (ast.Eq, ast.NotEq)):
                x, y = sorted([self.bytes_term(self.unopt(left)), self.bytes_term(self.unopt(right))])
                parts.append(f"decide ({x} {'=' if isinstance(op, ast.Eq) else '≠'} {y})")
                left = right
                continue
            if left.kind == "bool" and right.kind == "bool" and isinstance(op, (ast.Eq, ast.NotEq)):
                parts.append(f"({left.lean} {'==' if isinstance(op, ast.Eq) else '!='} {right.lean})")
                left = right
                continue
            if left.kind == "fix" or right.kind == "fix":
                x, y = to_fix_term(left), to_fix_term(right)
            else:
                x, y = to_int_term(left), to_int_term(right)
            sym = {"Eq": "=", "NotEq": "≠", "Lt": "<", "LtE": "≤", "Gt": ">", "GtE": "≥"}.get(type(op).__name__)
            if sym is None:
                raise Unsupported("comparison " + type(op).__name__)
            # the result of `bytes.find` is -1 or an index: every way of asking "not found" / "found" is one canonical test
            # (`Py.findI_ge` in Py/Ops.lean is the fact this rests on)
            fl, fr = (left.lean or "").startswith("Py.findI "), (right.lean or "").startswith("Py.findI ")
            if fl != fr and (right.const if fl else left.const) is not None:
                c = right.const if fl else left.const
                s_ = sym if fl else {"<": ">", "≤": "≥", ">": "<", "≥": "≤"}.get(sym, sym)     # as `find <s_> c`
                notfound = (s_, c) in (("<", 0), ("≤", -1), ("=", -1))
                found = (s_, c) in (("≥", 0), (">", -1), ("≠", -1))
                if notfound or found:
                    ft = x if fl else y
                    parts.append(f"decide ((-1) {'=' if notfound else '≠'} {ft})")
                    left = right
                    continue
            if sym in ("=", "≠"):
                x, y = sorted([x, y])              # symmetric: operands in text order
            elif sym in (">", "≥") and left.kind != "fix" and right.kind != "fix":
                x, y, sym = y, x, {">": "<", "≥": "≤"}[sym]      # only < and <= remain (ints)
            parts.append(f"decide ({x} {sym} {y})")
            left = right
        return parts[0] if len(parts) == 1 else "(" + " && ".join(parts) + ")"

    def unopt(self, v):
        """an optional bytes attribute used as bytes (after its None check): `getD []`"""
        if v.kind == "optbytes":
            return V("bytes", f"({v.lean}.getD [])")
        return v

    def cond(self, e, st, sc):
        """Lean Bool term for a Python condition (truthiness, and/or/not)"""
        if isinstance(e, ast.BoolOp):
            op = " && " if isinstance(e.op, ast.And) else " || "
            parts = [paren(self.cond(e.values[0], st, sc))]
            n0 = len(sc.reads)
            parts += [paren(self.cond(x, st, sc)) for x in e.values[1:]]
            if len(sc.reads) != n0:
                raise Unsupported("an operation that can raise in a short-circuited operand")
            return "(" + op.join(parts) + ")"
        if isinstance(e, ast.UnaryOp) and isinstance(e.op, ast.Not):
            return f"(!{paren(self.cond(e.operand, st, sc))})"
        return truthy(self.expr(e, st, sc))

    @staticmethod
    def dotted(n):
        parts = []
        while isinstance(n, ast.Attribute):
            parts.append(n.attr)
            n = n.value
        if isinstance(n, ast.Name):
            parts.append(n.id)
            return ".".join(reversed(parts))
        return None

    @staticmethod
    def strip_cast(n):
        """`cast(T, x)` is x"""
        while isinstance(n, ast.Call) and isinstance(n.func, ast.Name) and n.func.id == "cast" and len(n.args) == 2 and not n.keywords:
            n = n.args[1]
        return n

    def enum_ctor_try(self, s):
        """`try: T = SomeEnum(v)  except ValueError: T = v` (an enum member compares and encodes as its int value, and the
        constructor raises ValueError for a value that is no member): T = v.  Returns (target, value node) or None."""
        if not (isinstance(s, ast.Try) and len(s.handlers) == 1 and not s.orelse and not s.finalbody and len(s.body) == 1
                and len(s.handlers[0].body) == 1 and isinstance(s.body[0], ast.Assign) and isinstance(s.handlers[0].body[0], ast.Assign)
                and isinstance(s.handlers[0].type, ast.Name) and s.handlers[0].type.id == "ValueError"):
            return None
        a, b = s.body[0], s.handlers[0].body[0]
        if len(a.targets) != 1 or len(b.targets) != 1 or ast.dump(a.targets[0]) != ast.dump(b.targets[0]):
            return None
        ctor = self.strip_cast(a.value)
        if not (isinstance(ctor, ast.Call) and self.dotted(ctor.func) in self.spec.get("enum_classes", ()) and len(ctor.args) == 1
                and not ctor.keywords):
            return None
        if ast.dump(self.strip_cast(ctor.args[0])) != ast.dump(self.strip_cast(b.value)):
            return None
        return a.targets[0], self.strip_cast(b.value)

    def call(self, e, st, sc):
        f = e.func
        args = e.args
        if isinstance(f, ast.Name) and f.id == "cast" and len(args) == 2 and not e.keywords:
            return self.expr(args[1], st, sc)
        dn = self.dotted(f)
        if dn in self.spec.get("enum_getters", {}) and len(args) == 1 and not e.keywords:
            vals, dflt = self.spec["enum_getters"][dn]
            v = self.expr(args[0], st, sc)
            if v.kind != "int":
                raise Unsupported("get_from_value of a non-int")
            return V("int", f"Py.enumGetI {vals} {dflt} {paren(v.lean)}")
        if self.native:
            r = self.call_native(e, st, sc)
            if r is not None:
                return r
        if isinstance(f, ast.Name) and f.id in st and st[f.id].kind == "localfn":
            params, body = st[f.id].items
            if len(params) != len(args) or e.keywords:
                raise Unsupported("call of local function " + f.id)
            inner = dict(st)
            for p_, a in zip(params, args):
                inner[p_] = self.expr(a, st, sc)
            # the argument names are substituted syntactically where the body tests them against None
            return self.expr(self.subst(body, dict(zip(params, args))), st, sc)
        if isinstance(f, ast.Name):
            if f.id == "bool" and len(args) == 1:
                return V("bool", truthy(self.expr(args[0], st, sc)))
            if f.id == "int" and len(args) == 1:
                v = self.expr(args[0], st, sc)
                if v.kind == "fix":
                    return V("int", f"Int.tdiv {paren(v.lean)} {SCALE}")
                return V("int", to_int_term(v))
            if f.id == "float" and len(args) == 1:
                v = self.expr(args[0], st, sc)
                return V("fix", to_fix_term(v))
            if f.id == "len" and len(args) == 1:
                v = self.expr(args[0], st, sc)
                if v.kind == "bytesvar":
                    return V("int", f"({v.lean}.length : Int)")
                if v.kind == "seq":
                    return lit_int(len(v.items))
                raise Unsupported("len of " + v.kind)
            if f.id == "sum" and len(args) == 1:
                v = self.expr(args[0], st, sc)
                if self.is_seq(v):
                    return V("int", f"Py.sumI {paren(self.seq_term(v))}")
                raise Unsupported("sum of " + v.kind)
            if f.id in self.spec.get("functions", {}):
                return self.call_generated(self.spec["functions"][f.id], args, st, sc)
            if f.id in ("bytes", "bytearray") and len(args) == 1:
                v = self.expr(args[0], st, sc)
                if v.kind in ("ints", "bytesvar"):
                    return V("ints", self.seq_term(v))
                if v.kind == "ilist":
                    return V("seq", items=v.items)
                if v.kind == "int" and v.const is not None and 0 <= v.const <= 64:
                    return V("seq", items=[lit_int(0) for _ in range(v.const)])
                if v.kind in ("seq", "ilistexpr"):
                    return v
                raise Unsupported(f"{f.id}() of {v.kind}")
            if f.id in ("bytes", "bytearray") and len(args) == 0:
                return V("seq", items=[])
        if isinstance(f, ast.Attribute):
            if isinstance(f.value, ast.Name) and f.value.id == "math" and f.attr == "modf" and len(args) == 1:
                v = self.expr(args[0], st, sc)
                x = to_fix_term(v)
                return V("tuple", items=[V("fix", f"Int.tmod {paren(x)} {SCALE}"),
                                          V("fix", f"({SCALE} * Int.tdiv {paren(x)} {SCALE})")])
            qual = (f.value.id + "." + f.attr) if isinstance(f.value, ast.Name) else None
            if qual in self.spec.get("functions", {}):
                return self.call_generated(self.spec["functions"][qual], args, st, sc)
            if isinstance(f.value, ast.Name) and f.value.id == "self" and f.attr in self.spec.get("call_inputs", {}) and not args:
                return st[self.spec["call_inputs"][f.attr]]
            if isinstance(f.value, ast.Name) and f.value.id == "self" and f.attr in self.generated:
                lean_name, kinds, rkind = self.generated[f.attr]
                if len(args) != len(kinds):
                    raise Unsupported("arity of " + f.attr)
                terms = []
                for a, k in zip(args, kinds):
                    v = self.expr(a, st, sc)
                    terms.append(paren({"int": to_int_term, "fix": to_fix_term,
                                        "bool": lambda v: v.lean if v.kind == "bool" else truthy(v)}[k](v)))
                return V(rkind, f"{lean_name} " + " ".join(terms))
        raise Unsupported("call " + ast.unparse(e)[:60])

    @staticmethod
    def subst(node, mapping):
        class T(ast.NodeTransformer):
            def visit_Name(self, n):
                return mapping.get(n.id, n) if isinstance(n.ctx, ast.Load) else n
        import copy
        return T().visit(copy.deepcopy(node))

    def call_native(self, e, st, sc):
        f, args = e.func, e.args
        ext = self.spec.get("externals", {})
        # hashlib: sha256(x).digest() / md5(x).digest()
        if isinstance(f, ast.Attribute) and f.attr == "digest" and isinstance(f.value, ast.Call) \
                and isinstance(f.value.func, ast.Name) and f.value.func.id in ("sha256", "md5") and len(f.value.args) == 1:
            v = self.unopt(self.expr(f.value.args[0], st, sc))
            fn = {"sha256": "Crypto.SHA256.sha256", "md5": "Crypto.MD5.md5"}[f.value.func.id]
            return V("bytes", f"{fn} {paren(self.bytes_term(v))}")
        if isinstance(f, ast.Attribute) and f.attr == "find" and len(args) == 1:
            v = self.expr(f.value, st, sc)
            pat = self.expr(args[0], st, sc)
            if v.kind == "bytes" and pat.kind == "bytes":
                return V("int", f"Py.findI {paren(v.lean)} {paren(pat.lean)}")
        if isinstance(f, ast.Attribute) and f.attr in ("tobytes",) and not args:
            v = self.expr(f.value, st, sc)
            if v.kind == "bytes":
                return v
        if isinstance(f, ast.Attribute) and f.attr == "to_bytes" and len(args) == 2 and isinstance(args[1], ast.Constant) \
                and args[1].value in ("little", "big"):
            n = self.expr(f.value, st, sc)
            k = self.expr(args[0], st, sc)
            if k.const is None:
                raise Unsupported("to_bytes with a computed width")
            fn = "Py.toBytesLEI" if args[1].value == "little" else "Py.toBytesBEI"
            name = self.effect(sc, f"{fn} {k.const} {paren(to_int_term(n))}", "tb")
            return V("bytes", name)
        if isinstance(f, ast.Attribute) and isinstance(f.value, ast.Name) and f.value.id == "int" and f.attr == "from_bytes" \
                and len(args) == 2 and isinstance(args[1], ast.Constant) and args[1].value in ("little", "big"):
            v = self.expr(args[0], st, sc)
            fn = "Py.fromLE" if args[1].value == "little" else "Py.fromBE"
            return V("int", f"(({fn} {paren(self.bytes_term(v))} : Nat) : Int)")
        if isinstance(f, ast.Name) and f.id in ("bytes", "bytearray", "memoryview") and len(args) == 1:
            v = self.expr(args[0], st, sc)
            if v.kind == "bytes":
                return v
            if v.kind == "optbytes":
                return self.unopt(v)
            if v.kind == "ilist":
                if all(x.kind == "int" and x.const is not None and 0 <= x.const <= 255 for x in v.items):
                    return V("bytes", "([" + ", ".join(str(x.const) for x in v.items) + "] : Bytes)")
                name = self.effect(sc, "Py.bytesOf [" + ", ".join(to_int_term(x) for x in v.items) + "]", "bs")
                return V("bytes", name)
            if v.kind == "int" and v.const is not None and 0 <= v.const <= 64 and f.id != "memoryview":
                return V("bytes", f"(Py.zeros {v.const})")
            return None
        if isinstance(f, ast.Name) and f.id == "len" and len(args) == 1:
            v = self.expr(args[0], st, sc)
            if v.kind in ("bytes", "optbytes"):
                return V("int", f"({paren(self.bytes_term(self.unopt(v)))}.length : Int)")
            return None
        qual = None
        if isinstance(f, ast.Attribute) and isinstance(f.value, ast.Name):
            qual = f.value.id + "." + f.attr
        elif isinstance(f, ast.Name):
            qual = f.id
        if qual in ext:
            lean_fn, kinds, rkind, effectful = ext[qual][:4]
            commutative = len(ext[qual]) > 4 and ext[qual][4] == "comm"
            if kinds == "input":           # a call whose result is an input of the translated function (randomness, clock)
                return st[lean_fn]
            if len(args) != len(kinds):
                raise Unsupported("arity of " + qual)
            terms = []
            for a, k in zip(args, kinds):
                v = self.unopt(self.expr(a, st, sc))
                terms.append(paren(self.bytes_term(v) if k == "bytes" else to_int_term(v)))
            if commutative:
                terms = sorted(terms)         # f(a, b) = f(b, a): arguments in text order
            term = f"{lean_fn} " + " ".join(terms)
            if len(ext[qual]) > 4 and str(ext[qual][4]).startswith("suffix:"):
                term += " " + ext[qual][4][7:]          # an input of the translated function handed through (randomness)
            if effectful:
                return V(rkind, self.effect(sc, term, "r"))
            return V(rkind, term)
        return None

    def call_generated(self, target, args, st, sc):
        lean_name, kinds, rkind = target
        if len(args) != len(kinds):
            raise Unsupported("arity of " + lean_name)
        terms = []
        for a, k in zip(args, kinds):
            v = self.expr(a, st, sc)
            if k == "ints":
                terms.append(paren(self.seq_term(v)))
            else:
                terms.append(paren({"int": to_int_term, "fix": to_fix_term,
                                    "bool": lambda v: v.lean if v.kind == "bool" else truthy(v)}[k](v)))
        return V(rkind, f"{lean_name} " + " ".join(terms))

    # ---- statements --------------------------------------------------------------------------
    @staticmethod
    def has_return(stmts):
        for s in stmts:
            for n in ast.walk(s):
                if isinstance(n, (ast.Return, ast.Raise)):
                    return True
        return False

    def probe_input(self, call, exc_type):
        """spec["probes"]: {"ET.fromstring": ("ET.ParseError", "call:is_xml")} -> the input that says whether the probe succeeds"""
        def dotted(n):
            if isinstance(n, ast.Name):
                return n.id
            if isinstance(n, ast.Attribute) and isinstance(n.value, ast.Name):
                return n.value.id + "." + n.attr
            return None
        pr = self.spec.get("probes", {}).get(dotted(call.func))
        if pr and dotted(exc_type) == pr[0] and len(call.args) == 1 and not call.keywords:
            return pr[1]
        return None

    def external_name(self, call):
        f = call.func
        qual = None
        if isinstance(f, ast.Attribute) and isinstance(f.value, ast.Name):
            qual = f.value.id + "." + f.attr
        elif isinstance(f, ast.Name):
            qual = f.id
        return qual if qual in self.spec.get("externals", {}) else None

    def is_class_state(self, t):
        """`Command._message_id` / `cls._message_id` / `self._message_id` for an attribute the spec declares as class-level
        state (a counter shared by every instance)"""
        return isinstance(t, ast.Attribute) and isinstance(t.value, ast.Name) and t.attr in self.spec.get("class_state", ()) \
            and t.value.id in (self.spec.get("class_name"), "cls", "self", "type(self)") 

    def assign_target(self, t, v, st):
        if isinstance(t, ast.Name):
            st[t.id] = v
        elif self.is_class_state(t):
            if isinstance(t.value, ast.Name) and t.value.id == "self":
                raise Unsupported("assignment through self would shadow the class attribute")
            st["cls." + t.attr] = v
        elif isinstance(t, ast.Attribute) and isinstance(t.value, ast.Name) and t.value.id == "self":
            st["self." + t.attr] = v
        elif isinstance(t, ast.Tuple) and v.kind == "tuple" and len(t.elts) == len(v.items):
            for tt, vv in zip(t.elts, v.items):
                self.assign_target(tt, vv, st)
        elif isinstance(t, ast.Subscript):
            base = self.target_value(t.value, st)
            if base.kind != "seq" or not (isinstance(t.slice, ast.Constant) and isinstance(t.slice.value, int)
                                          and 0 <= t.slice.value < len(base.items)):
                raise Unsupported("item assignment")
            items = list(base.items)
            items[t.slice.value] = V("int", to_int_term(v), const=v.const if v.kind == "int" else None)
            if not (v.kind == "int" and v.const is not None and 0 <= v.const <= 255):
                self.obligations.append(to_int_term(v))      # bytearray item assignment range-checks the value
            self.assign_target(t.value, V("seq", items=items), st)
        else:
            raise Unsupported("assignment target " + type(t).__name__)

    def target_value(self, t, st):
        if isinstance(t, ast.Name) and t.id in st:
            return st[t.id]
        if self.is_class_state(t) and "cls." + t.attr in st:
            return st["cls." + t.attr]
        if isinstance(t, ast.Attribute) and isinstance(t.value, ast.Name) and t.value.id == "self" and "self." + t.attr in st:
            return st["self." + t.attr]
        raise Unsupported("read of unassigned target")

    def block(self, stmts, st, sc):
        """returns the Lean term of the function's result for executing stmts then falling off the end"""
        st = dict(st)
        for i, s in enumerate(stmts):
            rest = stmts[i + 1:]
            if isinstance(s, ast.Expr) and isinstance(s.value, ast.Constant):
                continue   # docstring / stray constant
            if isinstance(s, ast.Pass) or is_log_call(s):
                continue
            if self.spec.get("stop_at_await") and any(isinstance(n, ast.Await) for n in ast.walk(s)):
                return self.finish(st, None, sc)          # the translated part ends where the first await begins
            if isinstance(s, ast.If) and not s.orelse and all(is_log_call(b) for b in s.body):
                continue                                   # a warning: no effect on the result
            if isinstance(s, ast.FunctionDef) and len(s.body) == 1 and isinstance(s.body[0], ast.Return) \
                    and not s.args.vararg and not s.args.kwarg:
                st[s.name] = V("localfn", items=([a.arg for a in s.args.args], s.body[0].value))
                continue
            if isinstance(s, ast.Assign) and isinstance(s.value, ast.Call) and isinstance(s.value.func, ast.Name) \
                    and s.value.func.id in self.spec.get("objects", {}) and not s.value.args \
                    and len(s.targets) == 1 and isinstance(s.targets[0], ast.Name):
                st[s.targets[0].id] = V("obj", s.targets[0].id)
                continue
            if isinstance(s, ast.Assign) and len(s.targets) == 1 and isinstance(s.targets[0], ast.Attribute) \
                    and isinstance(s.targets[0].value, ast.Name) and s.targets[0].value.id in st \
                    and st[s.targets[0].value.id].kind == "obj":
                st[s.targets[0].value.id + "." + s.targets[0].attr] = self.expr(s.value, st, sc)
                continue
            if isinstance(s, ast.Assign):
                v = self.expr(s.value, st, sc)
                for t in s.targets:
                    self.assign_target(t, v, st)
                continue
            if isinstance(s, ast.AnnAssign) and s.value is not None:
                self.assign_target(s.target, self.expr(s.value, st, sc), st)
                continue
            if isinstance(s, ast.AugAssign):
                cur = self.target_value(s.target, st)
                v = self.binop(s.op, cur, self.expr(s.value, st, sc))
                self.assign_target(s.target, v, st)
                continue
            if isinstance(s, ast.Return):
                return self.finish(st, None if s.value is None else s.value, sc)
            if isinstance(s, ast.With) and len(s.items) == 1 and isinstance(s.items[0].optional_vars, ast.Name):
                v = self.expr(s.items[0].context_expr, st, sc)
                st[s.items[0].optional_vars.id] = v
                return self.block(list(s.body) + rest, st, sc)
            if self.enum_ctor_try(s) is not None:
                tgt, val = self.enum_ctor_try(s)
                self.assign_target(tgt, self.expr(val, st, sc), st)
                continue
            if isinstance(s, ast.Try) and len(s.handlers) == 1 and not s.orelse and not s.finalbody \
                    and len(s.handlers[0].body) == 1 and isinstance(s.handlers[0].body[0], ast.Pass) \
                    and len(s.body) == 2 and isinstance(s.body[0], ast.Expr) and isinstance(s.body[0].value, ast.Call) \
                    and isinstance(s.body[1], ast.Return) and self.probe_input(s.body[0].value, s.handlers[0].type) is not None:
                # `try: probe(x); return c  except ProbeError: pass` - whether the probe succeeds is an input bit of the
                # translated function (an external parser: its verdict is the environment's)
                bit = self.probe_input(s.body[0].value, s.handlers[0].type)
                ta = self.block([s.body[1]], st, Scope(sc))
                tb = self.block(rest, st, Scope(sc))
                return f"if {st[bit].lean} then\n{textwrap.indent(ta, '  ')}\nelse\n{textwrap.indent(tb, '  ')}"
            if isinstance(s, ast.Try) and len(s.handlers) == 1 and not s.orelse and not s.finalbody \
                    and isinstance(s.handlers[0].type, ast.Name) and len(s.handlers[0].body) == 1 \
                    and isinstance(s.handlers[0].body[0], ast.Raise):
                # try: <body> except SomeError: raise Other(...)   ->   effects of the body with that error class mapped
                h = s.handlers[0]
                exc = h.body[0].exc
                name = exc.func.id if isinstance(exc, ast.Call) and isinstance(exc.func, ast.Name) else None
                if name is None:
                    raise Unsupported("handler re-raises a computed exception")
                prev = self.err_map
                self.err_map = (h.type.id, self.err_of(name))
                try:
                    body_has_return = self.has_return(s.body)
                    if body_has_return:
                        # the try body ends the function: translate body + nothing after it under the mapping
                        term = self.block(list(s.body), st, sc)
                        return term
                    mid = self.pure_or_effect_block(s.body, st, sc)
                finally:
                    self.err_map = prev
                st = mid
                continue
            if isinstance(s, ast.Raise):
                exc = s.exc
                name = exc.func.id if isinstance(exc, ast.Call) and isinstance(exc.func, ast.Name) else \
                    exc.id if isinstance(exc, ast.Name) else None
                if name is None:
                    raise Unsupported("raise of a computed exception")
                return f"Except.error {self.err_of(name)}"
            if isinstance(s, ast.Expr) and isinstance(s.value, ast.Call) and self.native and self.external_name(s.value) is not None:
                v = self.call(s.value, st, sc)          # a call made for its exception only (`Frame.validate(x)`)
                continue
            if self.spec["out"][0] == "write" and isinstance(s, ast.Expr) and isinstance(s.value, ast.Call) \
                    and isinstance(s.value.func, ast.Attribute) and s.value.func.attr == "write" \
                    and isinstance(s.value.func.value, ast.Call) and isinstance(s.value.func.value.func, ast.Name) \
                    and s.value.func.value.func.id == "super" and len(s.value.args) == 1 and not s.value.keywords:
                if "emitted__" in st:
                    raise Unsupported("more than one write to the transport")
                st["emitted__"] = self.expr(s.value.args[0], st, sc)
                continue
            if isinstance(s, ast.Expr) and isinstance(s.value, ast.Call) and isinstance(s.value.func, ast.Attribute) \
                    and s.value.func.attr == "append" and len(s.value.args) == 1:
                cur = self.target_value(s.value.func.value, st)
                v = self.expr(s.value.args[0], st, sc)
                if not self.is_seq(cur):
                    raise Unsupported("append to " + cur.kind)
                self.obligations.append(to_int_term(v))
                if cur.kind == "seq":
                    new = V("seq", items=list(cur.items) + [V("int", to_int_term(v))])
                else:
                    new = V("ints", f"({self.seq_term(cur)} ++ [{to_int_term(v)}])")
                self.assign_target(s.value.func.value, new, st)
                continue
            if isinstance(s, ast.For) and not s.orelse and isinstance(s.target, ast.Name):
                it = self.expr(s.iter, st, sc)
                if not self.is_seq(it):
                    raise Unsupported("for over " + it.kind)
                carried = sorted({t.id for b in s.body for t in ast.walk(b)
                                  if isinstance(t, ast.Name) and isinstance(t.ctx, ast.Store)} - {s.target.id})
                if len(carried) != 1 or carried[0] not in st or st[carried[0]].kind != "int":
                    raise Unsupported("loop must carry exactly one int variable")
                acc = carried[0]
                inner = dict(st)
                inner[acc] = V("int", "acc")            # canonical names for the carried value and the element
                inner[s.target.id] = V("int", "elem")
                psc = Scope(sc)
                psc.pure_branch = True
                after = self.pure_block(s.body, inner, psc)
                if after[acc].kind != "int":
                    raise Unsupported("loop variable changes kind")
                st[acc] = V("int", f"List.foldl (fun (acc : Int) (elem : Int) => {after[acc].lean}) "
                                   f"{paren(st[acc].lean)} {paren(self.seq_term(it))}")
                continue
            if isinstance(s, ast.If):
                test, swapped = canon_test(s.test)
                s = ast.If(test=test, body=list(s.orelse if swapped else s.body), orelse=list(s.body if swapped else s.orelse))
                c = self.cond(s.test, st, sc)
                split = self.has_return(s.body) or self.has_return(s.orelse)
                if not split:
                    # pure branches: execute both, join the states ...
                    pa, pb = Scope(sc), Scope(sc)
                    pa.pure_branch = pb.pure_branch = True
                    fresh0 = self.fresh
                    try:
                        sta = self.pure_block(s.body, st, pa)
                        stb = self.pure_block(s.orelse, st, pb)
                    except Unsupported as e:
                        if "non-returning branch" not in str(e):
                            raise
                        # ... unless a branch performs an operation that can raise (first read of an index, to_bytes, ...):
                        # then the rest of the function is continued separately in each branch
                        self.fresh = fresh0
                        split = True
                if split:
                    sa, sb = Scope(sc), Scope(sc)
                    ta = self.emit_scope(sa, self.block(list(s.body) + rest, st, sa))
                    tb = self.emit_scope(sb, self.block(list(s.orelse) + rest, st, sb))
                    return f"if {c} then\n{textwrap.indent(ta, '  ')}\nelse\n{textwrap.indent(tb, '  ')}"
                for k in set(sta) | set(stb):
                    a, b = sta.get(k), stb.get(k)
                    if a is None or b is None:
                        continue     # defined on one path only: not usable afterwards
                    st[k] = a if a is b else self.ite(c, a, b)
                for k in list(st):
                    if k not in sta or k not in stb:
                        del st[k]
                continue
            raise Unsupported("statement " + type(s).__name__)
        return self.finish(st, None, sc)

    @staticmethod
    def err_of(name):
        return {"InvalidFrameException": ".invalidFrame", "InvalidResponseException": ".invalidResponse",
                "ProtocolError": ".protocol", "AuthenticationError": ".auth", "DiscoverError": ".discover"}.get(name, f'(.py "{name}")')

    def pure_or_effect_block(self, stmts, st, sc):
        """straight-line statements (assignments) whose effects are bound in the CURRENT scope"""
        st = dict(st)
        for s in stmts:
            if isinstance(s, ast.Assign):
                v = self.expr(s.value, st, sc)
                for t in s.targets:
                    self.assign_target(t, v, st)
            elif isinstance(s, ast.AugAssign):
                cur = self.target_value(s.target, st)
                self.assign_target(s.target, self.binop(s.op, cur, self.expr(s.value, st, sc)), st)
            elif is_log_call(s):
                pass
            else:
                raise Unsupported("statement in try body: " + type(s).__name__)
        return st

    def pure_block(self, stmts, st, sc):
        st = dict(st)
        for s in stmts:
            if isinstance(s, ast.Assign):
                v = self.expr(s.value, st, sc)
                for t in s.targets:
                    self.assign_target(t, v, st)
            elif isinstance(s, ast.AugAssign):
                cur = self.target_value(s.target, st)
                self.assign_target(s.target, self.binop(s.op, cur, self.expr(s.value, st, sc)), st)
            elif isinstance(s, ast.If):
                test, swapped = canon_test(s.test)
                s = ast.If(test=test, body=list(s.orelse if swapped else s.body), orelse=list(s.body if swapped else s.orelse))
                c = self.cond(s.test, st, sc)
                sta = self.pure_block(s.body, st, sc)
                stb = self.pure_block(s.orelse, st, sc)
                for k in set(sta) & set(stb):
                    a, b = sta[k], stb[k]
                    st[k] = a if a is b else self.ite(c, a, b)
            elif self.enum_ctor_try(s) is not None:
                tgt, val = self.enum_ctor_try(s)
                self.assign_target(tgt, self.expr(val, st, sc), st)
            elif isinstance(s, (ast.Pass,)) or (isinstance(s, ast.Expr) and isinstance(s.value, ast.Constant)) or is_log_call(s):
                pass
            elif isinstance(s, ast.Expr) and isinstance(s.value, ast.Call) and self.native and self.external_name(s.value) is not None:
                # a call made for its exception: the rest of the function is continued separately in each branch
                raise Unsupported("an effect inside a non-returning branch")
            else:
                raise Unsupported("statement in branch: " + type(s).__name__)
        return st

    def emit_scope(self, sc, term):
        gen = getattr(sc, "general", set())
        cus = getattr(sc, "custom", {})
        lines = [(f"let {name} ← {cus[key]}" if key in cus else
                  f"let {name} ← Py.index {paren(key[0])} {paren(str(key[1]))}" if key in gen
                  else f"let {name} ← Py.idxI {key[0]} {key[1]}") for key, name in sc.reads]
        if not lines:
            return term
        return "do\n" + textwrap.indent("\n".join(lines) + "\n" + term, "  ")

    def finish(self, st, retexpr, sc):
        out = self.spec["out"]
        if out[0] == "super_arg":
            # `return super().tobytes(X)`: the result is X as bytes
            if not (isinstance(retexpr, ast.Call) and isinstance(retexpr.func, ast.Attribute)
                    and retexpr.func.attr == out[1] and isinstance(retexpr.func.value, ast.Call)
                    and isinstance(retexpr.func.value.func, ast.Name) and retexpr.func.value.func.id == "super"
                    and len(retexpr.args) == 1):
                raise Unsupported("return is not super()." + out[1] + "(x)")
            v = self.expr(retexpr.args[0], st, sc)
            return f"Py.bytesOf {self.seq_term(v)}"
        if out[0] == "bytes":
            v = self.expr(retexpr, st, sc)
            t = f"Py.bytesOf {paren(self.seq_term(v))}"
            if self.obligations:
                t = f"Py.guardRange [{', '.join(self.obligations)}] ({t})"
            return t
        if out[0] == "step":
            # one iteration of a buffer loop: a bare `return` stops it (nothing changed); falling off the end of the body
            # (the synthetic `return 1`) continues with the packet put on the queue and the new buffer
            if retexpr is None or (isinstance(retexpr, ast.Constant) and retexpr.value is None):
                return "pure none"
            if not (isinstance(retexpr, ast.Constant) and retexpr.value == 1):
                raise Unsupported("value returned from the loop body")
            em, buf = st.get("emitted__"), st.get(out[1])
            if em is None or em.kind != "bytes":
                raise Unsupported("an iteration that continues without queueing exactly one packet")
            if buf is None or buf.kind != "bytes":
                raise Unsupported("buffer is not bytes at the end of the iteration")
            return f"pure (some ({self.bytes_term(em)}, {self.bytes_term(buf)}))"
        if out[0] == "attr_value":
            # a parser that leaves ONE attribute set: its value at the end
            v = st.get("self." + out[1])
            if v is None:
                raise Unsupported(f"attribute {out[1]} is never assigned")
            t = self.as_opt(v, out[2][4:]) if out[2].startswith("opt:") else to_int_term(v)
            return t if t.startswith("pure ") or not self.effectful else "pure " + paren(t)
        if out[0] == "dispatch":
            # `return some_class(payload)`: which class (its tag) and the bytes handed to its constructor
            if not (isinstance(retexpr, ast.Call) and len(retexpr.args) == 1 and not retexpr.keywords):
                raise Unsupported("return is not a constructor call with one argument")
            cls_v = self.expr(retexpr.func, st, sc)
            arg = self.expr(retexpr.args[0], st, sc)
            if cls_v.kind != "int" or arg.kind != "bytes":
                raise Unsupported("dispatch on a non-class / non-bytes")
            return f"pure ({to_int_term(cls_v)}, {self.bytes_term(arg)})"
        if out[0] == "value_state":
            # returns an int and leaves a class-level integer attribute updated: (value, attribute afterwards)
            v = self.expr(retexpr, st, sc)
            stv = st.get(out[1])
            if stv is None or stv.kind != "int":
                raise Unsupported("state attribute is not an int at the return")
            t = f"({to_int_term(v)}, {to_int_term(stv)})"
            return ("pure " + t) if self.effectful else t
        if out[0] == "write":
            # a method that hands ONE byte string to `super().write(...)` and updates an integer attribute
            if retexpr is not None and not (isinstance(retexpr, ast.Constant) and retexpr.value is None):
                raise Unsupported("value returned from write()")
            em, ctr = st.get("emitted__"), st.get(out[1])
            if em is None or em.kind != "bytes":
                raise Unsupported("write() does not hand exactly one byte string to the transport")
            if ctr is None or ctr.kind != "int":
                raise Unsupported("counter is not an int at the end of write()")
            return f"pure ({self.bytes_term(em)}, {to_int_term(ctr)})"
        if out[0] == "unit":
            if retexpr is not None:
                raise Unsupported("value returned from a procedure")
            return "pure ()"
        if out[0] == "value":
            if retexpr is None:
                v = V("none", "none")
            else:
                v = self.expr(retexpr, st, sc)
            k = out[1]
            if k == "opaque":
                if v.kind != "opaque":
                    raise Unsupported("the result is not the result of the external call")
                return "pure " + v.lean
            if k == "bytes":
                return "pure " + paren(self.bytes_term(self.unopt(v)))
            if k.startswith("opt:"):
                return self.as_opt(v, k[4:])
            t = {"int": to_int_term, "fix": to_fix_term}[k](v) if k != "bool" else v.lean
            return ("pure " + paren(t)) if self.effectful else t
        if out[0] in ("attrs", "obj_attrs"):
            fields = []
            prefix = "self." if out[0] == "attrs" else out[2] + "."
            for name, k in out[1]:
                v = st.get(prefix + name)
                if v is None:
                    raise Unsupported(f"attribute {name} is never assigned")
                if k.startswith("opt:"):
                    t = self.as_opt(v, k[4:])
                elif k == "bool":
                    if v.kind != "bool":
                        raise Unsupported(f"attribute {name}: bool expected, got {v.kind}")
                    t = v.lean
                elif k == "fix":
                    t = to_fix_term(v)
                else:
                    t = to_int_term(v)
                fields.append(f"{name} := {t}")
            body = "{ " + ",\n  ".join(fields) + " }"
            return ("pure\n" + textwrap.indent(body, "  ")) if self.effectful else body
        raise Unsupported("out spec")

    def translate(self):
        st = {}
        params = []
        for name, k in self.spec["inputs"]:
            lean_name = name.replace("self.", "").replace("call:", "").replace("cls.", "").replace("res.", "")
            if k == "bytes" and self.native:
                st[name] = V("bytes", lean_name)
            elif k == "optbytes":
                st[name] = V("optbytes", lean_name)
            elif k.startswith("opt:"):
                st[name] = V(k, lean_name)
            elif k == "bytes":
                st[name] = V("bytesvar", lean_name)
            elif k == "ints":
                st[name] = V("ints", lean_name)
            else:
                st[name] = V(k, lean_name)
            params.append(f"({lean_name} : {LEAN_TYPES[k]})")
        for name, k in self.spec.get("init_none", []):
            st["self." + name] = V("none", "none")
        sc = Scope()
        term = self.emit_scope(sc, self.block(self.fn.body, st, sc))
        return params, term


# ------------------------------------------------------------------------------------------------

def is_log_call(stmt):
    """`_LOGGER.debug(...)` / `logging.info(...)` as a statement: no effect on the result (the arguments of the log calls
    in the translated functions are attribute reads, `.hex()` and arithmetic on values already computed)"""
    return (isinstance(stmt, ast.Expr) and isinstance(stmt.value, ast.Call) and isinstance(stmt.value.func, ast.Attribute)
            and isinstance(stmt.value.func.value, ast.Name) and stmt.value.func.value.id in ("_LOGGER", "logging", "logger", "LOGGER")
            and stmt.value.func.attr in ("debug", "info", "warning", "error", "exception", "critical", "log"))


NEG_OP = {ast.Lt: ast.GtE, ast.GtE: ast.Lt, ast.Gt: ast.LtE, ast.LtE: ast.Gt, ast.Eq: ast.NotEq, ast.NotEq: ast.Eq,
          ast.Is: ast.IsNot, ast.IsNot: ast.Is}


def _atoms(test):
    """a test as a list of single-operator comparisons all of which must hold, or None when it is not of that shape"""
    if isinstance(test, ast.Compare):
        out, left = [], test.left
        for op, right in zip(test.ops, test.comparators):
            out.append(ast.Compare(left=left, ops=[op], comparators=[right]))
            left = right
        return out
    if isinstance(test, ast.BoolOp) and isinstance(test.op, ast.And):
        out = []
        for v in test.values:
            a = _atoms(v)
            if a is None:
                return None
            out += a
        return out
    return None


def _negate_atom(c):
    op = type(c.ops[0])
    if op not in NEG_OP:
        return None
    return ast.Compare(left=c.left, ops=[NEG_OP[op]()], comparators=c.comparators)


def _orient(c):
    """`a >= b` -> `b <= a`, `a > b` -> `b < a` (only < <= != == is/is not remain)"""
    op = type(c.ops[0])
    if op is ast.GtE:
        return ast.Compare(left=c.comparators[0], ops=[ast.LtE()], comparators=[c.left])
    if op is ast.Gt:
        return ast.Compare(left=c.comparators[0], ops=[ast.Lt()], comparators=[c.left])
    return c


def canon_test(test):
    """conditions in a canonical polarity, so that `if a == b: X else: Y`, `if a != b: Y else: X`, `if not (a != b): ...`,
    `17 <= t <= 30` and `not (t < 17 or t > 30)` translate to the same text: negations are pushed into the comparisons, an
    `or` of comparisons becomes the (negated) `and` of the negated comparisons, a single `==` becomes `!=`, comparisons are
    oriented (`<`, `<=` only) and conjunctions sorted; returns (test, swapped)"""
    swapped = False
    while isinstance(test, ast.UnaryOp) and isinstance(test.op, ast.Not):
        test, swapped = test.operand, not swapped
    if isinstance(test, ast.BoolOp) and isinstance(test.op, ast.Or):
        parts = []
        for v in test.values:
            a = _atoms(v)
            if a is None or len(a) != 1 or _negate_atom(a[0]) is None:
                parts = None
                break
            parts.append(_negate_atom(a[0]))
        if parts is not None:
            test, swapped = ast.BoolOp(op=ast.And(), values=parts), not swapped
    atoms = _atoms(test)
    if atoms is not None:
        if len(atoms) == 1 and isinstance(atoms[0].ops[0], ast.Eq):
            atoms, swapped = [_negate_atom(atoms[0])], not swapped
        atoms = sorted((_orient(a) for a in atoms), key=ast.dump)
        test = atoms[0] if len(atoms) == 1 else ast.BoolOp(op=ast.And(), values=atoms)
    return test, swapped


def find_func(tree, qual):
    parts = qual.split(".")
    body = tree.body
    cls = None
    for p in parts[:-1]:
        cls = next((n for n in body if isinstance(n, ast.ClassDef) and n.name == p), None)
        if cls is None:
            return None, None
        body = cls.body
    fn = next((n for n in body if isinstance(n, (ast.FunctionDef, ast.AsyncFunctionDef)) and n.name == parts[-1]), None)
    return fn, cls


def class_int_consts(cls):
    res = {}
    if cls is None:
        return res
    for n in cls.body:
        if isinstance(n, ast.Assign) and len(n.targets) == 1 and isinstance(n.targets[0], ast.Name) \
                and isinstance(n.value, ast.Constant) and isinstance(n.value.value, int):
            res[n.targets[0].id] = n.value.value
    return res


STATE_ATTRS = [("power_on", "bool"), ("target_temperature", "fix"), ("operational_mode", "int"),
               ("fan_speed", "int"), ("swing_mode", "int"), ("turbo", "bool"), ("eco", "bool"),
               ("sleep", "bool"), ("fahrenheit", "bool"), ("indoor_temperature", "opt:fix"),
               ("outdoor_temperature", "opt:fix"), ("filter_alert", "bool"), ("display_on", "bool"),
               ("freeze_protection", "opt:bool"), ("follow_me", "bool"), ("purifier", "bool"),
               ("target_humidity", "opt:int"), ("aux_heat", "bool"), ("independent_aux_heat", "bool")]

SETSTATE_INPUTS = [("self.beep_on", "bool"), ("self.power_on", "bool"), ("self.target_temperature", "fix"),
                   ("self.operational_mode", "int"), ("self.fan_speed", "int"), ("self.eco", "bool"),
                   ("self.swing_mode", "int"), ("self.turbo", "bool"), ("self.fahrenheit", "bool"),
                   ("self.sleep", "bool"), ("self.freeze_protection", "bool"), ("self.follow_me", "bool"),
                   ("self.purifier", "bool"), ("self.target_humidity", "int"), ("self.aux_heat", "bool"),
                   ("self.force_aux_heat", "bool"), ("self.independent_aux_heat", "bool")]

UPD_ATTRS = [("_power_state", "bool"), ("_target_temperature", "fix"), ("_operational_mode", "int"), ("_fan_speed", "int"),
             ("_swing_mode", "int"), ("_eco", "bool"), ("_turbo", "bool"), ("_freeze_protection", "opt:bool"), ("_sleep", "bool"),
             ("_indoor_temperature", "opt:fix"), ("_outdoor_temperature", "opt:fix"), ("_display_on", "bool"),
             ("_fahrenheit_unit", "bool"), ("_filter_alert", "bool"), ("_follow_me", "bool"), ("_purifier", "bool"),
             ("_target_humidity", "opt:int"), ("_aux_mode", "int")]

CMD = "msmart/device/AC/command.py"

FRAME = "msmart/frame.py"
LAN = "msmart/lan.py"
V3 = "_LanProtocolV3."
CBC_DEC = ("Model.decryptCbc", ["bytes", "bytes"], "bytes", True)
CBC_ENC = ("Model.encryptCbc", ["bytes", "bytes"], "bytes", False)

LAN_SPECS = [
    dict(name="buildHeader", file=LAN, func=V3 + "_build_header", inputs=[("length", "int"), ("extra", "bytes")],
         out=("value", "bytes"), rtype="R Bytes", effectful=True, native_bytes=True,
         model="Model.buildHeaderI length extra"),
    dict(name="encodeEncryptedRequest", file=LAN, func=V3 + "_encode_encrypted_request",
         inputs=[("self._local_key", "optbytes"), ("packet_id", "int"), ("data", "bytes"), ("call:rand", "bytes")],
         out=("value", "bytes"), rtype="R Bytes", effectful=True, native_bytes=True,
         externals={"get_random_bytes": ("call:rand", "input", None, None), "Security.encrypt_aes_cbc": CBC_ENC,
                    "self._build_header": ("buildHeader", ["int", "bytes"], "bytes", True)},
         model="Model.encodeEncryptedRequestI _local_key packet_id data rand"),
    dict(name="encodeHandshakeRequest", file=LAN, func=V3 + "_encode_handshake_request",
         inputs=[("packet_id", "int"), ("data", "bytes")],
         out=("value", "bytes"), rtype="R Bytes", effectful=True, native_bytes=True,
         externals={"self._build_header": ("buildHeader", ["int", "bytes"], "bytes", True)},
         model="Model.encodeHandshakeRequestI packet_id data"),
    dict(name="decodeEncryptedResponse", file=LAN, func=V3 + "_decode_encrypted_response",
         inputs=[("self._local_key", "optbytes"), ("packet", "bytes")],
         out=("value", "bytes"), rtype="R Bytes", effectful=True, native_bytes=True,
         externals={"Security.decrypt_aes_cbc": CBC_DEC},
         model="Model.decodeEncryptedResponse _local_key packet"),
    dict(name="decodeHandshakeResponse", file=LAN, func=V3 + "_decode_handshake_response", inputs=[("packet", "bytes")],
         out=("value", "bytes"), rtype="R Bytes", effectful=True, native_bytes=True,
         model="Except.ok (Model.decodeHandshakeResponse packet)"),
    dict(name="processPacket", file=LAN, func=V3 + "_process_packet",
         inputs=[("self._local_key", "optbytes"), ("packet", "bytes")],
         out=("value", "bytes"), rtype="R Bytes", effectful=True, native_bytes=True,
         externals={"self._decode_encrypted_response": ("decodeEncryptedResponse _local_key", ["bytes"], "bytes", True),
                    "self._decode_handshake_response": ("decodeHandshakeResponse", ["bytes"], "bytes", True)},
         model="Model.processPacket _local_key packet"),
    dict(name="getLocalKey", file=LAN, func=V3 + "_get_local_key", inputs=[("key", "bytes"), ("data", "bytes")],
         out=("value", "bytes"), rtype="R Bytes", effectful=True, native_bytes=True,
         externals={"Security.decrypt_aes_cbc": CBC_DEC, "strxor": ("Py.strxor", ["bytes", "bytes"], "bytes", True, "comm")},
         model="Model.getLocalKey key data"),
    dict(name="writeV3", file=LAN, func=V3 + "write",
         inputs=[("self._local_key", "optbytes"), ("self._packet_id", "int"), ("data", "bytes"), ("packet_type", "int"), ("call:rand", "bytes")],
         kwonly=["packet_type"],
         out=("write", "self._packet_id"), rtype="R (Bytes × Int)", effectful=True, native_bytes=True,
         externals={"self._encode_encrypted_request": ("encodeEncryptedRequest _local_key", ["int", "bytes"], "bytes", True, "suffix:rand"),
                    "self._encode_handshake_request": ("encodeHandshakeRequest", ["int", "bytes"], "bytes", True)},
         model="Model.writeV3I _local_key _packet_id data packet_type rand"),
    dict(name="reasmStep", file=LAN, func=V3 + "data_received", inputs=[("buffer", "bytes")],
         loop_body=dict(state="_buffer", var="buffer", data="data", queue="_queue"),
         out=("step", "buffer"), rtype="R (Option (Bytes × Bytes))", effectful=True, native_bytes=True,
         model="Except.ok (Model.reasmStep buffer)"),
    dict(name="getDeviceVersion", file="msmart/discover.py", func="Discover._get_device_version",
         inputs=[("call:is_xml", "bool"), ("data", "bytes")], probes={"ET.fromstring": ("ET.ParseError", "call:is_xml")},
         out=("value", "int"), rtype="R Int", effectful=True, native_bytes=True,
         model="(Model.getDeviceVersion is_xml data).map (fun n => (n : Int))"),
    dict(name="securitySign", file=LAN, func="Security.sign", inputs=[("data", "bytes")],
         bytes_consts={"Security.SIGN_KEY": "Generated.signKey", "cls.SIGN_KEY": "Generated.signKey"},
         out=("value", "bytes"), rtype="R Bytes", effectful=True, native_bytes=True,
         model="Except.ok (Model.sign data)"),
    dict(name="securityUdpid", file=LAN, func="Security.udpid", inputs=[("device_id", "bytes")],
         externals={"strxor": ("Py.strxor", ["bytes", "bytes"], "bytes", True, "comm")},
         out=("value", "bytes"), rtype="R Bytes", effectful=True, native_bytes=True,
         model="Except.ok (Model.udpid device_id)"),
    dict(name="packetEncode", file=LAN, func="_Packet.encode",
         inputs=[("device_id", "int"), ("command", "bytes"), ("call:ts", "bytes")],
         out=("value", "bytes"), rtype="R Bytes", effectful=True, native_bytes=True,
         externals={"cls._timestamp": ("call:ts", "input", None, None), "_Packet._timestamp": ("call:ts", "input", None, None),
                    "Security.encrypt_aes": ("Model.encryptAes", ["bytes"], "bytes", False),
                    "Security.sign": ("Model.sign", ["bytes"], "bytes", False)},
         model="Model.packetEncodeI device_id ts command"),
    dict(name="packetDecode", file=LAN, func="_Packet.decode", inputs=[("data", "bytes")],
         out=("value", "bytes"), rtype="R Bytes", effectful=True, native_bytes=True,
         externals={"Security.decrypt_aes": ("Model.decryptAes", ["bytes"], "bytes", True),
                    "Security.sign": ("Model.sign", ["bytes"], "bytes", False)},
         model="Model.packetDecode data"),
]

SPECS = [
    dict(name="crc8Calculate", file="msmart/crc8.py", func="calculate", inputs=[("data", "ints")],
         out=("value", "int"), rtype="Int", table_names={"_CRC8_854_TABLE": "crc8TableSrc"},
         model="((Model.crc8 (data.map (fun x => x.toNat.toUInt8))).toNat : Int)"),
    dict(name="checksum", file=FRAME, func="Frame.checksum", inputs=[("frame", "ints")],
         out=("value", "int"), rtype="Int",
         model="((Model.checksum (frame.map (fun x => x.toNat.toUInt8))).toNat : Int)"),
    dict(name="frameTobytes", file=FRAME, func="Frame.tobytes",
         inputs=[("self._device_type", "int"), ("self._protocol_version", "int"), ("self._frame_type", "int"), ("data", "bytes")],
         out=("bytes",), rtype="R Bytes", effectful=True,
         functions={"Frame.checksum": ("checksum", ["ints"], "int"), "cls.checksum": ("checksum", ["ints"], "int"),
                    "self.checksum": ("checksum", ["ints"], "int")},
         model="Model.frameToBytes _device_type.toNat.toUInt8 _frame_type.toNat.toUInt8 data"),
    dict(name="frameValidate", file=FRAME, func="Frame.validate", inputs=[("frame", "bytes")],
         out=("unit",), rtype="R Unit", effectful=True,
         functions={"Frame.checksum": ("checksum", ["ints"], "int"), "cls.checksum": ("checksum", ["ints"], "int")},
         model="Model.frameValidate frame"),
    dict(name="responseValidate", file=CMD, func="Response.validate", inputs=[("payload", "bytes")],
         out=("unit",), rtype="R Unit", effectful=True,
         functions={"crc8.calculate": ("crc8Calculate", ["ints"], "int"), "Frame.checksum": ("checksum", ["ints"], "int")},
         model="Model.respValidate payload"),
    dict(name="constructDispatch", file=CMD, func="Response._construct", inputs=[("frame", "bytes")],
         out=("dispatch",), rtype="R (Int × Bytes)", effectful=True, native_bytes=True, enum_files=["msmart/const.py"],
         class_tags={"Response": 0, "StateResponse": 1, "CapabilitiesResponse": 2, "PropertiesResponse": 3,
                     "EnergyUsageResponse": 4, "HumidityResponse": 5},
         externals={"Frame.validate": ("frameValidate", ["bytes"], "unit", True),
                    "Response.validate": ("responseValidate", ["bytes"], "unit", True),
                    "cls.validate": ("responseValidate", ["bytes"], "unit", True)},
         model="Model.constructDispatch frame"),
    dict(name="parseHumidity", file=CMD, func="HumidityResponse._parse", inputs=[("payload", "bytes")],
         init_none=[("humidity", "opt:int")], out=("attr_value", "humidity", "opt:int"), effectful=True, rtype="R (Option Int)",
         model="(Model.parseHumidity payload).map (fun o => o.map (fun n => (n : Int)))"),
    dict(name="constructOuter", file=CMD, func="Response.construct", inputs=[("frame", "bytes")],
         out=("value", "opaque"), rtype="R (Int × Bytes)", effectful=True, native_bytes=True,
         externals={"cls._construct": ("constructDispatch", ["bytes"], "opaque", True),
                    "Response._construct": ("constructDispatch", ["bytes"], "opaque", True)},
         model="Py.mapErr \"IndexError\" .invalidResponse (Model.constructDispatch frame)"),
    dict(name="nextMessageId", file=CMD, func="Command._next_message_id", inputs=[("cls._message_id", "int")],
         class_state=("_message_id",), out=("value_state", "cls._message_id"), rtype="Int × Int",
         model="(((Model.nextMessageId _message_id.toNat).2.toNat : Int), ((Model.nextMessageId _message_id.toNat).1 : Int))"),
    dict(name="commandPayload", file=CMD, func="Command.tobytes", inputs=[("data", "bytes"), ("call:msg_id", "int")],
         call_inputs={"_next_message_id": "call:msg_id"},
         out=("super_arg", "tobytes"), rtype="R Bytes", effectful=True,
         functions={"crc8.calculate": ("crc8Calculate", ["ints"], "int")},
         model="Except.ok (data ++ [msg_id.toNat.toUInt8] ++ [Model.crc8 (data ++ [msg_id.toNat.toUInt8])])"),
    dict(name="setStateBody", file=CMD, func="SetStateCommand.tobytes", inputs=SETSTATE_INPUTS,
         out=("super_arg", "tobytes"), consts_from="Command", effectful=True, rtype="R Bytes",
         model="Model.setStateBody { beep := beep_on, power := power_on, tempCenti := target_temperature, "
               "mode := operational_mode.toNat, fan := fan_speed, eco := eco, swing := swing_mode.toNat, turbo := turbo, "
               "fahrenheit := fahrenheit, sleep := sleep, freeze := freeze_protection, followMe := follow_me, "
               "purifier := purifier, humidity := target_humidity.toNat, auxHeat := aux_heat, "
               "forceAuxHeat := force_aux_heat, indepAuxHeat := independent_aux_heat }"),
    dict(name="toggleDisplayBody", file=CMD, func="ToggleDisplayCommand.tobytes", inputs=[("self.beep_on", "bool")],
         out=("super_arg", "tobytes"), consts_from="Command", effectful=True, rtype="R Bytes",
         model="Model.Cmd.body (.toggleDisplay beep_on)"),
    dict(name="getStateBody", file=CMD, func="GetStateCommand.tobytes", inputs=[("self.temperature_type", "int")],
         out=("super_arg", "tobytes"), consts_from="Command", effectful=True, rtype="R Bytes",
         model="Model.Cmd.body .getState"),
    dict(name="getEnergyBody", file=CMD, func="GetEnergyUsageCommand.tobytes", inputs=[],
         out=("super_arg", "tobytes"), consts_from="Command", effectful=True, rtype="R Bytes",
         model="Model.Cmd.body .getEnergy"),
    dict(name="getHumidityBody", file=CMD, func="GetHumidityCommand.tobytes", inputs=[],
         out=("super_arg", "tobytes"), consts_from="Command", effectful=True, rtype="R Bytes",
         model="Model.Cmd.body .getHumidity"),
    dict(name="getCapabilitiesBody", file=CMD, func="GetCapabilitiesCommand.tobytes", inputs=[("self._additional", "bool")],
         out=("super_arg", "tobytes"), consts_from="Command", effectful=True, rtype="R Bytes",
         model="Model.Cmd.body (.getCapabilities _additional)"),
    dict(name="parseTemperature", file=CMD, func="StateResponse._parse_temperature",
         inputs=[("data", "int"), ("decimals", "fix"), ("fahrenheit", "bool")],
         out=("value", "opt:fix"), rtype="Option Int",
         model="(Model.parseTemp data.toNat (decimals / 10).toNat fahrenheit).map (· * 10)"),
    dict(name="parseState", file=CMD, func="StateResponse._parse", inputs=[("payload", "bytes")],
         init_none=STATE_ATTRS, out=("attrs", STATE_ATTRS), effectful=True, rtype="R StateAttrs",
         generated={"_parse_temperature": ("parseTemperature", ["int", "fix", "bool"], "opt:fix")},
         model="(Model.parseState payload).map StateAttrs.ofModel"),
    dict(name="applyCommand", file="msmart/device/AC/device.py", func="AirConditioner.apply",
         inputs=[("self._beep_on", "bool"), ("self._power_state", "bool"), ("self._target_temperature", "fix"),
                 ("self._operational_mode", "int"), ("self._fan_speed", "int"), ("self._swing_mode", "int"),
                 ("self._eco", "bool"), ("self._turbo", "bool"), ("self._freeze_protection", "opt:bool"), ("self._sleep", "bool"),
                 ("self._fahrenheit_unit", "bool"), ("self._follow_me", "bool"), ("self._purifier", "bool"),
                 ("self._target_humidity", "opt:int"), ("self._aux_mode", "int")],
         stop_at_await=True, objects={"SetStateCommand": True},
         out=("obj_attrs", [("beep_on", "bool"), ("power_on", "bool"), ("target_temperature", "fix"), ("operational_mode", "int"),
                            ("fan_speed", "int"), ("swing_mode", "int"), ("eco", "bool"), ("turbo", "bool"),
                            ("freeze_protection", "bool"), ("sleep", "bool"), ("fahrenheit", "bool"), ("follow_me", "bool"),
                            ("purifier", "bool"), ("target_humidity", "int"), ("aux_heat", "bool"),
                            ("independent_aux_heat", "bool")], "cmd"),
         rtype="ApplyCmd",
         model="ApplyCmd.ofModel (Model.setStateOfDev { beep := _beep_on, power := _power_state, tempCenti := _target_temperature, "
               "mode := _operational_mode.toNat, fan := _fan_speed, swing := _swing_mode.toNat, eco := _eco, turbo := _turbo, "
               "freeze := _freeze_protection, sleep := _sleep, fahrenheit := _fahrenheit_unit, followMe := _follow_me, "
               "purifier := _purifier, humidity := _target_humidity.map Int.toNat, auxMode := _aux_mode.toNat })"),
    dict(name="updateState", file="msmart/device/AC/device.py", func="AirConditioner._update_state",
         isinstance_branch=("res", "StateResponse"), param_objects=("res",),
         inputs=[("self._supports_custom_fan_speed", "bool")] + [("res." + n, k) for n, k in STATE_ATTRS],
         enum_getters={"AirConditioner.OperationalMode.get_from_value": ("Generated.operationalMode", "Generated.operationalModeDefault"),
                       "AirConditioner.FanSpeed.get_from_value": ("Generated.fanSpeed", "Generated.fanSpeedDefault"),
                       "AirConditioner.SwingMode.get_from_value": ("Generated.swingMode", "Generated.swingModeDefault")},
         enum_classes=("AirConditioner.FanSpeed",),
         out=("attrs", UPD_ATTRS), rtype="UpdAttrs",
         model="UpdAttrs.ofModel _supports_custom_fan_speed (StateAttrs.toModel { power_on := power_on, target_temperature := target_temperature, "
               "operational_mode := operational_mode, fan_speed := fan_speed, swing_mode := swing_mode, turbo := turbo, eco := eco, sleep := sleep, "
               "fahrenheit := fahrenheit, indoor_temperature := indoor_temperature, outdoor_temperature := outdoor_temperature, "
               "filter_alert := filter_alert, display_on := display_on, freeze_protection := freeze_protection, follow_me := follow_me, "
               "purifier := purifier, target_humidity := target_humidity, aux_heat := aux_heat, independent_aux_heat := independent_aux_heat })"),
] + LAN_SPECS


def loop_body_function(fn, cfg):
    """`def f(self, data): self.<state> += data; while len(self.<state>) > 0: BODY` -> the synthetic function
    `def f(<var>): BODY'; return 1` where BODY' is BODY with `self.<state>` renamed to the local `<var>`, a bare `return`
    kept (= the loop stops, nothing changed), and `self.<queue>.put_nowait(x)` turned into `emitted__ = x`.  The skeleton
    (accumulate, iterate while the buffer is not empty, nothing after the loop) is checked here, syntactically; anything
    else is outside the subset."""
    state, var = cfg["state"], cfg["var"]
    body = [b for b in fn.body if not (isinstance(b, ast.Expr) and isinstance(b.value, ast.Constant)) and not is_log_call(b)]

    def is_state(n):
        return isinstance(n, ast.Attribute) and isinstance(n.value, ast.Name) and n.value.id == "self" and n.attr == state
    if len(body) != 2:
        raise Unsupported("loop skeleton: expected `buffer += data` followed by one while loop")
    acc, loop = body
    if not (isinstance(acc, ast.AugAssign) and isinstance(acc.op, ast.Add) and is_state(acc.target)
            and isinstance(acc.value, ast.Name) and acc.value.id == cfg["data"]):
        raise Unsupported("loop skeleton: first statement is not `self.%s += %s`" % (state, cfg["data"]))
    ok_test = False
    if isinstance(loop, ast.While) and not loop.orelse:
        t = loop.test
        if isinstance(t, ast.Compare) and len(t.ops) == 1 and isinstance(t.left, ast.Call) and isinstance(t.left.func, ast.Name) \
                and t.left.func.id == "len" and len(t.left.args) == 1 and is_state(t.left.args[0]) \
                and isinstance(t.comparators[0], ast.Constant) and (
                    (isinstance(t.ops[0], ast.Gt) and t.comparators[0].value == 0)
                    or (isinstance(t.ops[0], ast.NotEq) and t.comparators[0].value == 0)
                    or (isinstance(t.ops[0], ast.GtE) and t.comparators[0].value == 1)):
            ok_test = True
        if is_state(t) or (isinstance(t, ast.Call) and isinstance(t.func, ast.Name) and t.func.id == "len"
                           and len(t.args) == 1 and is_state(t.args[0])):
            ok_test = True                       # `while self._buffer:` / `while len(self._buffer):`
    if not ok_test:
        raise Unsupported("loop skeleton: not `while len(self.%s) > 0`" % state)

    class Rn(ast.NodeTransformer):
        def visit_Attribute(self, n):
            if is_state(n):
                return ast.copy_location(ast.Name(id=var, ctx=n.ctx), n)
            return self.generic_visit(n)

        def visit_Expr(self, n):
            c = n.value
            if isinstance(c, ast.Call) and isinstance(c.func, ast.Attribute) and c.func.attr == "put_nowait" \
                    and isinstance(c.func.value, ast.Attribute) and isinstance(c.func.value.value, ast.Name) \
                    and c.func.value.value.id == "self" and c.func.value.attr == cfg["queue"] and len(c.args) == 1:
                return ast.copy_location(ast.Assign(targets=[ast.Name(id="emitted__", ctx=ast.Store())],
                                                    value=self.visit(c.args[0])), n)
            return self.generic_visit(n)

        def visit_While(self, n):
            raise Unsupported("nested loop")

        def visit_Continue(self, n):
            raise Unsupported("continue in the loop body")

        def visit_Break(self, n):
            raise Unsupported("break in the loop body")
    import copy
    new_body = [Rn().visit(copy.deepcopy(b)) for b in loop.body]
    new_body.append(ast.Return(value=ast.Constant(value=1)))
    f2 = copy.copy(fn)
    f2.body = new_body
    f2.args = ast.arguments(posonlyargs=[], args=[ast.arg(arg="self"), ast.arg(arg=var)], kwonlyargs=[], kw_defaults=[], defaults=[])
    ast.fix_missing_locations(f2)
    return f2


def isinstance_branch_function(fn, var, cls_name):
    """the body of the `if isinstance(<var>, <cls_name>):` arm of an if / elif chain at the top of a function, as a function"""
    import copy
    for st_ in fn.body:
        node = st_
        while isinstance(node, ast.If):
            t = node.test
            if isinstance(t, ast.Call) and isinstance(t.func, ast.Name) and t.func.id == "isinstance" and len(t.args) == 2 \
                    and isinstance(t.args[0], ast.Name) and t.args[0].id == var and isinstance(t.args[1], ast.Name) \
                    and t.args[1].id == cls_name:
                f2 = copy.copy(fn)
                f2.body = copy.deepcopy(node.body)
                return f2
            node = node.orelse[0] if len(node.orelse) == 1 else None
    raise Unsupported(f"no `if isinstance({var}, {cls_name})` arm")


def translate_all(repo=None):
    """returns (lean_text, report) ; report: name -> 'ok' | 'unsupported: reason'"""
    repo = repo or REPO
    report = {}
    defs = []
    trees = {}
    tables_out = {}
    for spec in SPECS:
        path = os.path.join(repo, spec["file"])
        try:
            if path not in trees:
                trees[path] = ast.parse(open(path).read())
            tree = trees[path]
            fn, cls = find_func(tree, spec["func"])
            if spec["name"] in os.environ.get("PYTRANS_FORCE_UNSUPPORTED", "").split(","):
                raise Unsupported("forced by PYTRANS_FORCE_UNSUPPORTED (self-test of the fallback)")
            unproved = spec["name"] in os.environ.get("PYTRANS_UNPROVED", "").split(",")
            if fn is None:
                raise Unsupported("function not found: " + spec["func"])
            if spec.get("loop_body"):
                fn = loop_body_function(fn, spec["loop_body"])
            if spec.get("isinstance_branch"):
                fn = isinstance_branch_function(fn, *spec["isinstance_branch"])
            sp = dict(spec)
            cc = {}
            if spec.get("consts_from"):
                c2 = next((n for n in tree.body if isinstance(n, ast.ClassDef) and n.name == spec["consts_from"]), None)
                cc.update(class_int_consts(c2))
            cc.update(class_int_consts(cls))
            sp["class_consts"] = cc
            sp["nested_consts"] = {n.name: class_int_consts(n) for n in (cls.body if cls is not None else [])
                                   if isinstance(n, ast.ClassDef)}
            sp["class_name"] = cls.name if cls is not None else None
            def is_enum(n):
                return isinstance(n, ast.ClassDef) and any(isinstance(b, ast.Name) and b.id in ("IntEnum", "MideaIntEnum") for b in n.bases)
            enums = {n.name: class_int_consts(n) for n in tree.body if is_enum(n)}
            for extra in spec.get("enum_files", []):
                ep = os.path.join(repo, extra)
                if ep not in trees:
                    trees[ep] = ast.parse(open(ep).read())
                enums.update({n.name: class_int_consts(n) for n in trees[ep].body if is_enum(n)})
            sp["module_enums"] = {k: v for k, v in enums.items() if v}
            argnames = [a.arg for a in fn.args.args]
            if argnames and argnames[0] in ("self", "cls"):
                argnames = argnames[1:]
            want = [n for n, _k in spec["inputs"] if not n.startswith("self.") and not n.startswith("call:") and not n.startswith("cls.")
                    and "." not in n]
            argnames = [a for a in argnames if a not in spec.get("param_objects", ())]
            kwonly = [a.arg for a in fn.args.kwonlyargs]
            if kwonly and kwonly == spec.get("kwonly"):
                argnames = argnames + kwonly            # keyword-only parameters the spec names (their defaults are the callers' business)
                kwonly = []
            if argnames != want or fn.args.vararg or fn.args.kwarg or kwonly:
                raise Unsupported(f"signature {argnames} (expected {want})")
            if spec.get("table_names"):
                sp["tables"] = {}
                for tn, lean_tn in spec["table_names"].items():
                    node = next((n for n in tree.body if isinstance(n, ast.Assign) and len(n.targets) == 1
                                 and isinstance(n.targets[0], ast.Name) and n.targets[0].id == tn), None)
                    if node is None or not isinstance(node.value, ast.List) or not all(
                            isinstance(x, ast.Constant) and isinstance(x.value, int) for x in node.value.elts):
                        raise Unsupported(f"module constant {tn} is not a literal list of ints")
                    vals = [x.value for x in node.value.elts]
                    sp["tables"][tn] = (lean_tn, len(vals))
                    tables_out[lean_tn] = vals
            tr = Tr(sp, fn, cls, generated=spec.get("generated"))
            params, term = tr.translate()
            spec["_params"] = params
            text = f"def {spec['name']} {' '.join(params)} : {spec['rtype']} :=\n{textwrap.indent(term, '  ')}\n"
            if unproved:
                # the function IS inside the subset, but the equality with the model does not check for this text (the
                # proof scripts of CodecEq do not absorb the rewrite): tie by correspondence only, like `unsupported`
                report[spec["name"]] = "translated, equivalence with the model not proved for this text: tie by correspondence"
                defs.append((spec, None, False))
                continue
            defs.append((spec, text, True))
            report[spec["name"]] = "ok"
        except Unsupported as e:
            report[spec["name"]] = "unsupported: " + str(e)
            defs.append((spec, None, False))
        except (SyntaxError, OSError) as e:
            report[spec["name"]] = "unsupported: source unreadable: " + type(e).__name__
            defs.append((spec, None, False))
    out = []
    out.append("-- GENERATED by harness/pytrans.py from the current source text of /repo. DO NOT EDIT.\n")
    out.append("import Msmart.Py.Ops\nimport Msmart.Model.Response\nimport Msmart.Model.Device\nimport Msmart.Model.PacketV3\nimport Msmart.Model.LanInt\nimport Msmart.Model.Reassembly\nimport Msmart.Model.Discover\nimport Msmart.Generated.Crc8Table\n\nset_option linter.unusedVariables false\n\nnamespace Msmart.Generated.Codec\nopen Msmart\n\n")
    out.append(STATE_STRUCT)
    out.append(APPLY_STRUCT)
    for spec in SPECS:
        for _tn, lean_tn in (spec.get("table_names") or {}).items():
            if lean_tn not in tables_out:      # not readable from the source: the table the public function steps through
                out.append(f"def {lean_tn} : List Int := Msmart.Generated.crc8Table.toList.map (fun b => (b.toNat : Int))\n\n")
    for lean_tn, vals in tables_out.items():
        out.append(f"/-- module-level table, as written in the source -/\ndef {lean_tn} : List Int := [" + ", ".join(map(str, vals)) + "]\n\n")
    for spec, text, ok in defs:
        out.append(f"/-- `{spec['func']}` ({spec['file']}) -/\n")
        if ok:
            out.append(text)
            out.append(f"def {spec['name']}_translated : Bool := true\n\n")
        else:
            # alias of the model: the tie for this function is the correspondence check only
            params = [f"({n.replace('self.', '').replace('call:', '').replace('cls.', '').replace('res.', '')} : {LEAN_TYPES[k]})" for n, k in spec["inputs"]]
            out.append(f"def {spec['name']} {' '.join(params)} : {spec['rtype']} :=\n  {spec['model']}\n")
            out.append(f"def {spec['name']}_translated : Bool := false\n\n")
    out.append("end Msmart.Generated.Codec\n")
    return "".join(out), report


APPLY_STRUCT = """/-- the fields `apply()` assigns to its `SetStateCommand` before sending it -/
structure ApplyCmd where
  beep_on : Bool
  power_on : Bool
  target_temperature : Int
  operational_mode : Int
  fan_speed : Int
  swing_mode : Int
  eco : Bool
  turbo : Bool
  freeze_protection : Bool
  sleep : Bool
  fahrenheit : Bool
  follow_me : Bool
  purifier : Bool
  target_humidity : Int
  aux_heat : Bool
  independent_aux_heat : Bool
  deriving DecidableEq, Repr

def ApplyCmd.ofModel (s : Model.SetState) : ApplyCmd :=
  { beep_on := s.beep, power_on := s.power, target_temperature := s.tempCenti, operational_mode := s.mode, fan_speed := s.fan,
    swing_mode := s.swing, eco := s.eco, turbo := s.turbo, freeze_protection := s.freeze, sleep := s.sleep,
    fahrenheit := s.fahrenheit, follow_me := s.followMe, purifier := s.purifier, target_humidity := s.humidity,
    aux_heat := s.auxHeat, independent_aux_heat := s.indepAuxHeat }

"""

STATE_STRUCT = """/-- attributes of a `StateResponse` after `_parse` (floats in hundredths) -/
structure StateAttrs where
""" + "".join(f"  {n} : {LEAN_TYPES[k]}\n" for n, k in STATE_ATTRS) + """  deriving DecidableEq, Repr

/-- the hand-written model's record in the representation of the translated code -/
def StateAttrs.ofModel (m : Model.StateResp) : StateAttrs :=
  { power_on := m.power, target_temperature := m.tempCenti, operational_mode := m.mode, fan_speed := m.fan,
    swing_mode := m.swing, turbo := m.turbo, eco := m.eco, sleep := m.sleep, fahrenheit := m.fahrenheit,
    indoor_temperature := m.indoor.map (· * 10), outdoor_temperature := m.outdoor.map (· * 10),
    filter_alert := m.filterAlert, display_on := m.displayOn, freeze_protection := m.freeze,
    follow_me := m.followMe, purifier := m.purifier, target_humidity := m.humidity.map (fun (n : Nat) => (n : Int)),
    aux_heat := m.auxHeat, independent_aux_heat := m.indepAuxHeat }

/-- the inverse direction (what the attribute values mean to the model) -/
def StateAttrs.toModel (a : StateAttrs) : Model.StateResp :=
  { power := a.power_on, tempCenti := a.target_temperature, mode := a.operational_mode.toNat, fan := a.fan_speed.toNat,
    swing := a.swing_mode.toNat, turbo := a.turbo, eco := a.eco, sleep := a.sleep, fahrenheit := a.fahrenheit,
    indoor := a.indoor_temperature.map (· / 10), outdoor := a.outdoor_temperature.map (· / 10),
    filterAlert := a.filter_alert, displayOn := a.display_on, freeze := a.freeze_protection,
    followMe := a.follow_me, purifier := a.purifier, humidity := a.target_humidity.map Int.toNat,
    auxHeat := a.aux_heat, indepAuxHeat := a.independent_aux_heat }

/-- the attributes the `StateResponse` arm of `AirConditioner._update_state` assigns (floats in hundredths, enum members as ints) -/
structure UpdAttrs where
""" + "".join(f"  {n} : {LEAN_TYPES[k]}\n" for n, k in UPD_ATTRS) + """  deriving DecidableEq, Repr

def UpdAttrs.ofDev (d : Model.Dev) : UpdAttrs :=
  { _power_state := d.power, _target_temperature := d.tempCenti, _operational_mode := (d.mode : Int), _fan_speed := d.fan,
    _swing_mode := (d.swing : Int), _eco := d.eco, _turbo := d.turbo, _freeze_protection := d.freeze, _sleep := d.sleep,
    _indoor_temperature := d.indoor.map (· * 10), _outdoor_temperature := d.outdoor.map (· * 10), _display_on := d.displayOn,
    _fahrenheit_unit := d.fahrenheit, _filter_alert := d.filterAlert, _follow_me := d.followMe, _purifier := d.purifier,
    _target_humidity := d.humidity.map (fun (n : Nat) => (n : Int)), _aux_mode := (d.auxMode : Int) }

/-- the model's `_update_state` on a fresh object whose only relevant capability is `supports_custom_fan_speed` -/
def UpdAttrs.ofModel (sup : Bool) (st : Model.StateResp) : UpdAttrs :=
  UpdAttrs.ofDev (({ supCustomFan := sup } : Model.Dev).updateFromState st)

"""


if __name__ == "__main__":
    import json
    import sys
    text, rep = translate_all()
    if "--print" in sys.argv:
        print(text)
    print(json.dumps(rep, indent=1))
