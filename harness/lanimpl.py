"""Calling the real LAN-layer codecs and canonicalising their outcomes."""
import msmart.lan as lan
from msmart.lan import AuthenticationError, ProtocolError, _Packet

from common import hx


def canon_exc(e):
    if isinstance(e, AuthenticationError):
        return "err:auth"
    if isinstance(e, ProtocolError):
        return "err:protocol"
    if isinstance(e, TimeoutError):
        return "err:timeout"
    return "err:py:" + type(e).__name__


def v2_encode(device_id, frame):
    """returns (outcome, timestamp bytes read back from the packet)"""
    try:
        p = _Packet.encode(device_id, frame)
    except Exception as e:  # noqa
        return canon_exc(e), None
    return hx(p), bytes(p[12:20])


def v2_decode(data):
    try:
        return hx(_Packet.decode(data))
    except Exception as e:  # noqa
        return canon_exc(e)


def v3_proto(key=None):
    p = lan._LanProtocolV3()
    p._local_key = key
    return p


def v3_enc_request(key, ctr, data):
    """returns (outcome hex, pad bytes read back by decrypting the emitted packet)"""
    p = v3_proto(key)
    try:
        pkt = p._encode_encrypted_request(ctr, data)
    except Exception as e:  # noqa
        return canon_exc(e), b""
    pad = pkt[5] >> 4
    plain = lan.Security.decrypt_aes_cbc(key, pkt[6:-32])
    return hx(pkt), bytes(plain[len(plain) - pad:]) if pad else b""


def v3_process(key, packet):
    p = v3_proto(key)
    try:
        with memoryview(bytes(packet)) as mv:
            return hx(p._process_packet(mv))
    except Exception as e:  # noqa
        return canon_exc(e)


def v3_local_key(key, data):
    p = v3_proto(None)
    try:
        with memoryview(bytes(data)) as mv:
            return hx(p._get_local_key(key, mv))
    except Exception as e:  # noqa
        return canon_exc(e)
