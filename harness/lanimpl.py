"""Calling the real LAN-layer codecs and canonicalising their outcomes."""
import msmart.lan as lan
from msmart.lan import AuthenticationError, ProtocolError, _Packet

from common import hx


def canon_exc(e):
    if isinstance(e, AuthenticationError):
        return "err:auth"
    if isinstance(e, ProtocolError):
        return "err:protocol"
    if isinstance(e, TimeoutError):
        return "err:timeout"
    return "err:py:" + type(e).__name__


def v2_encode(device_id, frame):
    """returns (outcome, timestamp bytes read back from the packet)"""
    try:
        p = _Packet.encode(device_id, frame)
    except Exception as e:  # noqa
        return canon_exc(e), None
    return hx(p), bytes(p[12:20])


def v2_decode(data):
    try:
        return hx(_Packet.decode(data))
    except Exception as e:  # noqa
        return canon_exc(e)


def v3_proto(key=None):
    p = lan._LanProtocolV3()
    p._local_key = key
    return p


def v3_enc_request(key, ctr, data):
    """returns (outcome hex, pad bytes read back by decrypting the emitted packet)"""
    p = v3_proto(key)
    try:
        pkt = p._encode_encrypted_request(ctr, data)
    except Exception as e:  # noqa
        return canon_exc(e), b""
    pad = pkt[5] >> 4
    plain = lan.Security.decrypt_aes_cbc(key, pkt[6:-32])
    return hx(pkt), bytes(plain[len(plain) - pad:]) if pad else b""


def v3_process(key, packet):
    p = v3_proto(key)
    try:
        with memoryview(bytes(packet)) as mv:
            return hx(p._process_packet(mv))
    except Exception as e:  # noqa
        return canon_exc(e)


def v3_process_seq(key, packets):
    """the same protocol OBJECT processes the packets one after the other (what a connection does)"""
    p = v3_proto(key)
    out = []
    for packet in packets:
        try:
            with memoryview(bytes(packet)) as mv:
                out.append(hx(p._process_packet(mv)))
        except Exception as e:  # noqa
            out.append(canon_exc(e))
    return out


class _ReplyingTransport:
    """fake transport: answers the first write with a prepared packet (delivered through data_received)"""

    def __init__(self, proto, reply):
        self.proto, self.reply, self.written = proto, reply, []

    def get_extra_info(self, name):
        return ("0.0.0.0", 0)

    def is_closing(self):
        return False

    def close(self):
        pass

    def write(self, data):
        self.written.append(bytes(data))
        if self.reply is not None:
            r, self.reply = self.reply, None
            self.proto.data_received(r)


def v3_local_key(key, data):
    """what the client derives from a handshake response payload `data` under `key`.  Reached through the protocol's
    own `authenticate()` (a handshake response packet carrying `data` answers the handshake request), NOT by calling
    the private helper that computes it: renaming that helper must not matter."""
    import asyncio
    data = bytes(data)
    if len(data) + 2 > 0xFFFF:
        return "err:auth"
    p = lan._LanProtocolV3()
    packet = b"\x83\x70" + len(data).to_bytes(2, "big") + b"\x20\x01" + b"\x00\x00" + data
    p.connection_made(_ReplyingTransport(p, packet))

    async def go():
        await p.authenticate(b"\x01" * 64, key)
        return p._local_key
    try:
        k = asyncio.run(go())
        return hx(k)
    except Exception as e:  # noqa
        return canon_exc(e)
