"""Calling the real LAN-layer codecs and canonicalising their outcomes."""
import msmart.lan as lan
from msmart.lan import AuthenticationError, ProtocolError, _Packet

from common import hx


def canon_exc(e):
    if isinstance(e, AuthenticationError):
        return "err:auth"
    if isinstance(e, ProtocolError):
        return "err:protocol"
    if isinstance(e, TimeoutError):
        return "err:timeout"
    return "err:py:" + type(e).__name__


def v2_encode(device_id, frame):
    """returns (outcome, timestamp bytes read back from the packet)"""
    try:
        p = _Packet.encode(device_id, frame)
    except Exception as e:  # noqa
        return canon_exc(e), None
    return hx(p), bytes(p[12:20])


def v2_decode(data):
    try:
        return hx(_Packet.decode(data))
    except Exception as e:  # noqa
        return canon_exc(e)
