"""A stateful simulated air conditioner at the frame level: responder for simdev.SimDevice (or
for devrun's reactive oracle).  Every byte-level decision is delegated to the Lean Spec through
the driver: Spec.decodeSetState for 0x40 bodies, Spec.statusPayload + Spec.respFrame for 0xC0
replies, Spec.PropertyStore for 0xB0/0xB1."""
import respgen
from common import hx

FIELDS = ["power", "mode", "temp", "fan", "swing", "eco", "turbo", "sleep", "f", "freeze", "follow", "pur", "hum", "aux"]


class SpecAC:
    def __init__(self, ctx, state=None, display=True, profile=(), caps_frame=None, style="crc", indoor=94, outdoor=255,
                 digits=0, extra_frames=None):
        self.ctx = ctx
        self.state = dict(power=0, mode=2, temp=44, fan=102, swing=0, eco=0, turbo=0, sleep=0, f=0, freeze=0, follow=0,
                          pur=0, hum=40, aux=0)
        if state:
            self.state.update(state)
        self.display = display
        self.style = style
        self.indoor, self.outdoor, self.digits = indoor, outdoor, digits
        self.store = ctx.driver.ask("store_new profile=" + "+".join(str(p) for p in profile))
        self.caps_frame = caps_frame
        self.received = []        # (kind, frame)
        self.beeps = []
        self.extra_frames = extra_frames or (lambda frame: ([], []))   # (before, after) frames to interleave

    def status_frame(self, msgid=0, frame_type=3):
        s = self.state
        line = ("spec_status_payload " + " ".join(f"{k}={int(s[k])}" for k in FIELDS)
                + f" display={int(self.display)} filter=0 indoor={self.indoor} outdoor={self.outdoor} digits={self.digits} msgid={msgid}")
        payload = self.ctx.driver.ask(line)
        return bytes.fromhex(self.ctx.driver.ask(f"spec_resp_frame ft={frame_type} proto=3 style={self.style} payload={payload}"))

    def __call__(self, frame):
        frame = bytes(frame)
        body = frame[10:-3]
        msgid = frame[-3]
        before, after = self.extra_frames(frame)
        out = []
        if body[0] == 0x41 and body[1] == 0x81:
            self.received.append(("get_state", frame))
            out = [self.status_frame(msgid)]
        elif body[0] == 0x41 and body[1] == 0x21:
            self.received.append(("group_query", frame))
            out = []
        elif body[0] == 0x41:
            self.received.append(("toggle_display", frame))
            self.display = not self.display
            self.beeps.append(bool(body[1] & 0x40))
            out = [self.status_frame(msgid)]
        elif body[0] == 0x40:
            self.received.append(("set_state", frame))
            dec = self.ctx.driver.ask(f"spec_decode_setstate body={hx(body)}")
            if dec.startswith("ok "):
                d = dict(kv.split("=") for kv in dec.split()[1:])
                self.beeps.append(d["beep"] == "1")
                for k in FIELDS:
                    self.state[k] = int(d[k])
            out = [self.status_frame(msgid, frame_type=2)]
        elif body[0] == 0xB5:
            self.received.append(("get_caps", frame))
            out = [self.caps_frame] if self.caps_frame else []
        elif body[0] in (0xB0, 0xB1):
            self.received.append(("props", frame))
            rep = self.ctx.driver.ask(f"store_step {self.store} body={hx(body)}")
            self.store, resp = rep.rsplit(" resp=", 1)
            if resp != "none":
                out = [respgen.make_frame(bytes.fromhex(resp) + bytes([msgid]), frame_type=frame[9])]
        else:
            self.received.append(("other", frame))
        return list(before) + out + list(after)
