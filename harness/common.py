"""Shared machinery of the checks: regenerate + build + audit, the driver client, recording of
cases / disagreements / violations, the decision procedure of DESIGN §3.4, evidence and replays."""
import fcntl
import json
import os
import random
import re
import subprocess
import sys
import time

HERE = os.path.dirname(os.path.abspath(__file__))
VERIF = os.path.dirname(HERE)
LEAN = os.path.join(VERIF, "lean")
REPO = os.environ.get("MSMART_REPO", "/repo")
DRIVER_BIN = os.path.join(LEAN, ".lake", "build", "bin", "msmart_driver")
ALLOWED_AXIOMS = {"propext", "Classical.choice", "Quot.sound"}
FORBIDDEN = re.compile(r"\b(sorry|admit|native_decide|bv_decide|implemented_by|unsafe)\b|^\s*axiom\s|maxHeartbeats\s+0\b")

TRUSTED_BASE = [
    "Lean 4.33.0 kernel (lake build; leanchecker re-check in the thorough tier)",
    "axioms allowed in property theorems: propext, Classical.choice, Quot.sound (audited with #print axioms on every run); no sorry/admit/axiom/native_decide/bv_decide",
    "translator harness/extract.py (Generated/*.lean regenerated from /repo on every run: tables, enums, constants) and harness/pytrans.py (Generated/Codec.lean: 34 functions translated from the source text - codecs, the loop body of data_received, write(), the message-id counter, Response.validate and the dispatch of Response._construct; Lemmas/CodecEq*.lean prove them equal to the hand-written Model for all inputs; Python operator semantics in Py/Ops.lean; the loop skeleton of data_received and the canonical forms of the translator - sorted conjunctions, oriented comparisons, find() results - are checked syntactically / by small lemmas, not verified end to end; a function whose equality does not check for the current text falls back to the correspondence tie and is listed in evidence.translator)",
    "correspondence harness (generators, canonicalisers, virtual-time loop, fake transports) ties the hand-written Model to the real code by differential testing",
    "CPython, asyncio, pycryptodome, hashlib, httpx, argparse, ast.literal_eval, xml.etree, ipaddress are modelled, not verified",
]


class Timeout(Exception):
    pass


def sh(cmd, cwd=None, timeout=None, env=None):
    p = subprocess.run(cmd, cwd=cwd, shell=isinstance(cmd, str), stdout=subprocess.PIPE,
                       stderr=subprocess.STDOUT, text=True, timeout=timeout, env=env)
    return p.returncode, p.stdout


# ------------------------------------------------------------------------------------------------
# build + audit

def load_obligations():
    return json.load(open(os.path.join(LEAN, "obligations.json")))


def strip_comments(text):
    # remove /- ... -/ (nested not handled beyond one level, fine for our sources) and -- comments
    out = []
    depth = 0
    i = 0
    while i < len(text):
        if text.startswith("/-", i):
            depth += 1
            i += 2
        elif text.startswith("-/", i) and depth > 0:
            depth -= 1
            i += 2
        elif depth > 0:
            i += 1
        elif text.startswith("--", i):
            j = text.find("\n", i)
            i = len(text) if j < 0 else j
        else:
            out.append(text[i])
            i += 1
    return "".join(out)


def grep_forbidden():
    hits = []
    for root, _dirs, files in os.walk(os.path.join(LEAN, "Msmart")):
        for f in files:
            if f.endswith(".lean"):
                path = os.path.join(root, f)
                txt = strip_comments(open(path).read())
                for n, line in enumerate(txt.split("\n"), 1):
                    if FORBIDDEN.search(line):
                        hits.append(f"{os.path.relpath(path, LEAN)}: {line.strip()[:120]}")
    return hits


THEOREM_FUNCS = {
    "toggleDisplay_eq": ["toggleDisplayBody"], "getState_eq": ["getStateBody"], "getEnergy_eq": ["getEnergyBody"],
    "getHumidity_eq": ["getHumidityBody"], "getCapabilities_eq": ["getCapabilitiesBody"], "setStateBody_eq": ["setStateBody"],
    "parseTemperature_eq_nat": ["parseTemperature"], "indoor_eq": ["parseTemperature"], "outdoor_eq": ["parseTemperature"],
    "parseState_eq": ["parseState"], "crc_step_u8": ["crc8Calculate"], "crc_fold": ["crc8Calculate"],
    "crc8Calculate_eq": ["crc8Calculate"], "checksum_eq": ["checksum"], "checksum_range": ["checksum"],
    "frameTobytes_eq": ["frameTobytes"], "frameValidate_eq": ["frameValidate"], "commandPayload_eq": ["commandPayload"],
    "commandToBytes_eq": ["commandPayload", "frameTobytes"], "applyCommand_eq": ["applyCommand"],
    "applyThenTobytes_eq": ["applyCommand", "setStateBody"], "buildHeader_eq": ["buildHeader"],
    "encodeHandshakeRequest_eq": ["encodeHandshakeRequest"], "encodeEncryptedRequest_eq": ["encodeEncryptedRequest"],
    "decodeHandshakeResponse_eq": ["decodeHandshakeResponse"], "decodeEncryptedResponse_eq": ["decodeEncryptedResponse"],
    "processPacket_eq": ["processPacket"], "getLocalKey_eq": ["getLocalKey"], "packetEncode_eq": ["packetEncode"],
    "packetDecode_eq": ["packetDecode"], "reasmStep_eq": ["reasmStep"], "writeV3_eq": ["writeV3"], "nextMessageId_eq": ["nextMessageId"], "responseValidate_eq": ["responseValidate"], "constructDispatch_eq": ["constructDispatch"], "getDeviceVersion_eq": ["getDeviceVersion"], "constructOuter_eq": ["constructOuter"], "parseHumidity_eq": ["parseHumidity"], "securitySign_eq": ["securitySign"], "securityUdpid_eq": ["securityUdpid"], "updateState_eq": ["updateState"], "updateOfAttrs_ofModel": ["updateState"],
}
ALL_TRANSLATED = sorted({f for fs in THEOREM_FUNCS.values() for f in fs})


def _functions_of_errors(build_output):
    """which translated functions the failing equivalence theorems of Lemmas/CodecEq*.lean are about; None if an error
    cannot be attributed (then every function falls back)"""
    funcs = set()
    found = False
    for m in re.finditer(r"error: (Msmart/Lemmas/CodecEq(?:Lan)?\.lean):(\d+):", build_output):
        found = True
        path, line = os.path.join(LEAN, m.group(1)), int(m.group(2))
        try:
            lines = open(path).read().split("\n")
        except OSError:
            return None
        name = None
        for k in range(min(line, len(lines)) - 1, -1, -1):
            mm = re.match(r"theorem (\w+)", lines[k])
            if mm:
                name = mm.group(1)
                break
        if name not in THEOREM_FUNCS:
            return None
        funcs.update(THEOREM_FUNCS[name])
    return sorted(funcs) if found else None


def settle_translation(res):
    """The translation tie is opportunistic (DESIGN 3.1b): `Generated/Codec.lean` has just been regenerated; if an equality
    `translated = model` of Lemmas/CodecEq*.lean does not check for the new text of a function, that function falls back to
    the correspondence tie (it is emitted as an alias of the model, exactly like a function outside the translator's
    subset), the reason is recorded, and the checks of the properties it serves run their thorough generators.  A failing
    equality is therefore never reported by itself - a semantic change shows up in the correspondence / oracle."""
    unproved = []
    # run-time memo (not committed, not evidence): for THIS exact text of Generated/Codec.lean and of the proof files the set of
    # functions whose equality did not check last time - so that the twenty checks of one tree do not each spend minutes on a
    # proof attempt that is known to fail for this text.  A stale or missing memo only costs time: the loop below still decides.
    import hashlib
    memo_path = os.path.join(LEAN, ".lake", "translation_memo.json")

    def text_key():
        h = hashlib.sha256()
        for f in ("Msmart/Generated/Codec.lean", "Msmart/Lemmas/CodecEq.lean", "Msmart/Lemmas/CodecEqLan.lean", "Msmart/Py/Ops.lean"):
            try:
                h.update(open(os.path.join(LEAN, f), "rb").read())
            except OSError:
                pass
        return h.hexdigest()
    try:
        memo = json.load(open(memo_path))
    except Exception:
        memo = {}
    key0 = text_key()
    if memo.get(key0) and not os.environ.get("PYTRANS_UNPROVED"):
        unproved = sorted(memo[key0])
        env = dict(os.environ, PYTRANS_UNPROVED=",".join(unproved))
        rc2, out2 = sh(["/venv/bin/python", os.path.join(HERE, "extract.py")], cwd=VERIF, timeout=300, env=env)
        try:
            res["generated"] = json.loads(out2.strip().split("\n")[-1])
        except Exception:
            pass
    for attempt in range(3):
        rc, out = sh(["lake", "build", "Msmart.Lemmas.CodecEqLan"], cwd=LEAN, timeout=1800)
        if rc == 0:
            break
        funcs = _functions_of_errors(out)
        if funcs is None or attempt == 2:
            funcs = ALL_TRANSLATED
        unproved = sorted(set(unproved) | set(funcs))
        env = dict(os.environ, PYTRANS_UNPROVED=",".join(unproved))
        rc2, out2 = sh(["/venv/bin/python", os.path.join(HERE, "extract.py")], cwd=VERIF, timeout=300, env=env)
        try:
            res["generated"] = json.loads(out2.strip().split("\n")[-1])
        except Exception:
            pass
    if unproved and len(memo) < 200:
        try:
            memo[key0] = unproved
            os.makedirs(os.path.dirname(memo_path), exist_ok=True)
            json.dump(memo, open(memo_path, "w"))
        except OSError:
            pass
    res["translation_unproved"] = unproved
    return unproved


def regenerate_and_build(pid, log, tier="quick"):
    """Returns dict: generated (extract output), driver_ok, props_ok, build_log, theorems {name: axioms|None}"""
    res = {"driver_ok": False, "props_ok": False, "build_log": "", "theorems": {}, "generated": {},
           "forbidden": []}
    lock = open(os.path.join(VERIF, ".build.lock"), "w")
    fcntl.flock(lock, fcntl.LOCK_EX)
    try:
        rc, out = sh(["/venv/bin/python", os.path.join(HERE, "extract.py")], cwd=VERIF, timeout=300)
        try:
            res["generated"] = json.loads(out.strip().split("\n")[-1])
        except Exception:
            res["generated"] = {"error": out[-2000:]}
        settle_translation(res)
        rc, out = sh(["lake", "build", "msmart_driver"], cwd=LEAN, timeout=1800)
        res["driver_ok"] = (rc == 0)
        if rc != 0:
            res["build_log"] += out[-4000:]
        mod = f"Msmart.Props.{pid}"
        rc, out = sh(["lake", "build", mod], cwd=LEAN, timeout=3000)
        res["props_ok"] = (rc == 0)
        if rc != 0:
            res["build_log"] += out[-6000:]
    finally:
        fcntl.flock(lock, fcntl.LOCK_UN)
        lock.close()
    # audit axioms of each obligation individually, so one missing theorem does not hide the others
    names = load_obligations().get(pid, [])
    if res["props_ok"]:
        src = f"import Msmart.Props.{pid}\n" + "".join(f"#print axioms {n}\n" for n in names)
        tmp = os.path.join(LEAN, f".audit_{pid}_{os.getpid()}.lean")
        open(tmp, "w").write(src)
        try:
            rc, out = sh(["lake", "env", "lean", tmp], cwd=LEAN, timeout=600)
        finally:
            os.unlink(tmp)
        # parse: "'Name' depends on axioms: [a, b]" or "'Name' does not depend on any axioms"
        flat = out.replace("\n", " ")
        for n in names:
            m = re.search(r"'" + re.escape(n) + r"' depends on axioms: \[([^\]]*)\]", flat)
            if m:
                res["theorems"][n] = sorted(a.strip() for a in m.group(1).split(",") if a.strip())
            elif re.search(r"'" + re.escape(n) + r"' does not depend on any axioms", flat):
                res["theorems"][n] = []
            else:
                res["theorems"][n] = None
    else:
        for n in names:
            res["theorems"][n] = None
    res["forbidden"] = grep_forbidden()
    # thorough tier: the toolchain's independent re-checker replays the compiled module in a fresh kernel
    res["leanchecker"] = None
    if tier == "thorough" and res["props_ok"]:
        try:
            rc, out = sh(["lake", "env", "leanchecker", f"Msmart.Props.{pid}"], cwd=LEAN, timeout=1800)
            res["leanchecker"] = "ok" if rc == 0 else ("failed: " + out[-500:])
            if rc != 0:
                res["props_ok"] = False
                res["build_log"] += "\nleanchecker: " + out[-2000:]
        except subprocess.TimeoutExpired:
            res["leanchecker"] = "timeout (not counted)"
    return res


# ------------------------------------------------------------------------------------------------
# driver client

class Driver:
    def __init__(self):
        if os.path.exists(DRIVER_BIN):
            cmd = [DRIVER_BIN]
        else:
            cmd = ["lake", "env", "lean", "--run", "Main.lean"]
        self.p = subprocess.Popen(cmd, cwd=LEAN, stdin=subprocess.PIPE, stdout=subprocess.PIPE,
                                  text=True, bufsize=1)
        self.calls = 0

    def ask(self, line):
        self.calls += 1
        self.p.stdin.write(line + "\n")
        self.p.stdin.flush()
        out = self.p.stdout.readline()
        if out == "":
            raise RuntimeError("driver died on: " + line[:200])
        return out.rstrip("\n")

    def batch(self, lines):
        """many requests, one round trip each but pipelined in chunks"""
        res = []
        CH = 200
        for i in range(0, len(lines), CH):
            chunk = lines[i:i + CH]
            self.p.stdin.write("".join(l + "\n" for l in chunk))
            self.p.stdin.flush()
            for _ in chunk:
                out = self.p.stdout.readline()
                if out == "":
                    raise RuntimeError("driver died")
                res.append(out.rstrip("\n"))
        self.calls += len(lines)
        return res

    def close(self):
        try:
            self.p.stdin.close()
            self.p.wait(timeout=5)
        except Exception:
            self.p.kill()


TRANSLATED_PROPS = {"C01", "C02", "C03", "C04", "C05", "C06", "C07", "C09", "C10", "C11", "C12", "C13", "C14", "C18"}


# which properties each translated function serves (DESIGN 3.1b, column "used by"): a function that is not translated any
# more (outside the subset, or its equality does not check for the current text) intensifies the checks of THESE properties
FUNC_PROPS = {
    "crc8Calculate": {"C12", "C13", "C01"}, "checksum": {"C12", "C13", "C01"}, "frameTobytes": {"C12", "C01"},
    "frameValidate": {"C13", "C14", "C01"}, "commandPayload": {"C12", "C01"}, "setStateBody": {"C10", "C12", "C01"},
    "toggleDisplayBody": {"C12"}, "getStateBody": {"C12"}, "getEnergyBody": {"C12"}, "getHumidityBody": {"C12"},
    "getCapabilitiesBody": {"C12"}, "parseTemperature": {"C11", "C01"}, "parseState": {"C11", "C01"},
    "applyCommand": {"C10", "C01"}, "buildHeader": {"C05", "C06", "C07"}, "encodeEncryptedRequest": {"C05", "C07", "C01"},
    "encodeHandshakeRequest": {"C06", "C07"}, "decodeEncryptedResponse": {"C05", "C09", "C01"},
    "decodeHandshakeResponse": {"C06", "C09"}, "processPacket": {"C05", "C06", "C09", "C01"}, "getLocalKey": {"C06", "C09"},
    "writeV3": {"C07", "C01"}, "reasmStep": {"C04", "C09", "C01"}, "packetEncode": {"C02", "C01"},
    "packetDecode": {"C02", "C03", "C09", "C01"}, "responseValidate": {"C13", "C14"}, "constructDispatch": {"C13", "C14", "C01"},
    "constructOuter": {"C14"}, "parseHumidity": {"C14"}, "nextMessageId": {"C12"}, "getDeviceVersion": {"C17", "C18"},
    "securitySign": {"C02", "C03"}, "securityUdpid": {"C17", "C19"}, "updateState": {"C11", "C01"},
}


def property_files(pid):
    """the source files a property is anchored in (properties.jsonl)"""
    try:
        for line in open(os.path.join(VERIF, "properties.jsonl")):
            p = json.loads(line)
            if p.get("id") == pid:
                return set(p.get("anchors", {}).get("files", []))
    except OSError:
        pass
    return set()


def lan_of(dev):
    """the LAN object of a device, whatever the attribute is called"""
    from msmart.lan import LAN
    lan = getattr(dev, "_lan", None)
    if isinstance(lan, LAN):
        return lan
    for v in vars(dev).values():
        if isinstance(v, LAN):
            return v
    raise AttributeError("device object holds no LAN instance")


def hx(b):
    b = bytes(b)
    return b.hex() if len(b) else "-"


def unhx(s):
    return b"" if s == "-" else bytes.fromhex(s)


# ------------------------------------------------------------------------------------------------
# known findings

def load_known():
    path = os.path.join(VERIF, "known_findings.json")
    if not os.path.exists(path):
        return []
    return json.load(open(path)).get("findings", [])


# ------------------------------------------------------------------------------------------------
# recording + decision

class Ctx:
    def __init__(self, pid, tier, seed):
        self.pid = pid
        self.tier = tier
        self.seed = seed
        self.rng = random.Random(f"{pid}:{seed}")
        self.t0 = time.time()
        self.driver = None
        self.build = None
        self.evaluations = 0
        self.nontrivial = set()
        self.samples = []
        self.dist = {}
        self.disagreements = []       # model vs impl
        self.violations = []          # oracle failures on the impl: dicts
        self.known_hits = {}
        self.streams = {}
        self.notes = []
        self.deadline = None
        self.search_mode = False
        self.known = [k for k in load_known() if k.get("property") == pid]
        self.known_predicates = {}

    # -- bookkeeping -------------------------------------------------------------------------
    def count(self, key, n=1):
        self.dist[key] = self.dist.get(key, 0) + n

    def case(self, stream, key=None, nontrivial=True, sample=None):
        self.evaluations += 1
        self.streams[stream] = self.streams.get(stream, 0) + 1
        if nontrivial and key is not None:
            self.nontrivial.add((stream, key))
        if sample is not None and len([s for s in self.samples if s.get("stream") == stream]) < 2:
            self.samples.append({"stream": stream, **sample})

    def disagree(self, stream, inp, impl, model):
        self.count("disagreements:" + stream)
        if len(self.disagreements) < 50:
            self.disagreements.append({"stream": stream, "input": inp, "impl": impl, "model": model})

    def violate(self, stream, inp, observed, expected, what):
        v = {"stream": stream, "input": inp, "observed": observed, "expected": expected, "what": what}
        for k in self.known:
            if k.get("status") != "known":
                continue
            pred = self.known_predicates.get(k["id"])
            if pred and pred(v):
                self.known_hits.setdefault(k["id"], []).append(v)
                return
        self.count("violations:" + stream)
        if len(self.violations) < 20:
            self.violations.append(v)

    def expired(self):
        return self.deadline is not None and time.time() > self.deadline

    # -- finish ------------------------------------------------------------------------------
    def write_replay(self, name, payload):
        d = os.path.join(VERIF, "replays")
        os.makedirs(d, exist_ok=True)
        path = os.path.join(d, name)
        json.dump(payload, open(path, "w"), indent=1, default=str)
        return os.path.relpath(path, VERIF)

    def finish(self, search=None):
        """search: callable(ctx) running the directed failing-input search (thorough generators
        with the oracle only); used when an obligation or the correspondence broke."""
        b = self.build or {}
        names = list((b.get("theorems") or {}).keys())
        bad_thms = [n for n in names
                    if b["theorems"][n] is None or not set(b["theorems"][n]) <= ALLOWED_AXIOMS]
        proof_broken = (not b.get("props_ok", False)) or bool(bad_thms) or bool(b.get("forbidden"))
        corr_broken = bool(self.disagreements) or not b.get("driver_ok", False)
        lines = []
        exit_code = 0
        if not self.violations and (proof_broken or corr_broken) and search is not None:
            self.notes.append("obligation or correspondence broke: running directed failing-input search")
            self.search_mode = True
            try:
                search(self)
            except Exception as e:  # search problems must not mask the report
                self.notes.append(f"search error: {type(e).__name__}: {e}")
        for kid, hits in self.known_hits.items():
            k = [k for k in self.known if k["id"] == kid][0]
            lines.append(f"KNOWN-FINDING: property={self.pid} {k['description']} ({len(hits)} hits, e.g. {json.dumps(hits[0]['input'])[:160]})")
        if self.violations:
            seen = set()
            for i, v in enumerate(self.violations):
                sig = (v["stream"], v["what"])
                if sig in seen:
                    continue
                seen.add(sig)
                path = self.write_replay(f"{self.pid}_{self.tier}_{self.seed}_{len(seen)}.json",
                                         {"property": self.pid, "kind": "impl-violation", "seed": self.seed, **v})
                lines.append(f"VIOLATION property={self.pid} replay={path}")
                if len(seen) >= 5:
                    break
            exit_code = 1
        elif proof_broken or corr_broken:
            payload = {"property": self.pid, "seed": self.seed,
                       "kind": "proof-broken" if proof_broken else "correspondence-broken",
                       "theorems_not_checking": bad_thms,
                       "forbidden_tokens": b.get("forbidden"),
                       "driver_ok": b.get("driver_ok"), "props_ok": b.get("props_ok"),
                       "build_log_tail": (b.get("build_log") or "")[-3000:],
                       "generated": b.get("generated"),
                       "first_disagreements": self.disagreements[:5],
                       "note": "no failing input for the property was found on the implementation by the directed search"}
            path = self.write_replay(f"{self.pid}_{self.tier}_{self.seed}_broken.json", payload)
            lines.append(f"VIOLATION property={self.pid} replay={path} no-failing-input-found")
            exit_code = 1
        ev = {
            "property_id": self.pid,
            "tier": self.tier,
            "seed": self.seed,
            "level": "proof",
            "coverage": {
                "obligations": max(1, len(names)),
                "discharged": len([n for n in names if n not in bad_thms]) if b.get("props_ok") else 0,
                "checker_cmd": f"cd lean && lake build Msmart.Props.{self.pid} && lake env lean <#print axioms of each obligation>",
                "trusted_base": TRUSTED_BASE,
                "theorems": {n: b["theorems"][n] for n in names},
                "evaluations": self.evaluations,
                "distinct_nontrivial": len(self.nontrivial),
                "rule": "every case is run on the real implementation and on the Lean model (correspondence) and through the implementation-side oracle; distinct = distinct (stream, canonical input key); non-trivial = reached a non-error branch or the specific error branch the stream targets",
                "samples": self.samples[:12] or [{"note": "no cases"}],
                "traces_validated_against_impl": self.evaluations,
                "streams": self.streams,
                "distribution": self.dist,
                "disagreements": len(self.disagreements),
                "leanchecker": b.get("leanchecker"),
                "source_drift": (b.get("generated") or {}).get("source_drift"),
                "generated_changed": (b.get("generated") or {}).get("changed"),
                "translator": (b.get("generated") or {}).get("translator"),
                "driver_calls": self.driver.calls if self.driver else 0,
                "known_findings_hit": {k: len(v) for k, v in self.known_hits.items()},
                "notes": self.notes,
            },
            "assumptions": TRUSTED_BASE,
            "wall_s": round(time.time() - self.t0, 2),
            "violations": len(self.violations),
        }
        # (tools/seeded_eval.py redirects the evidence of its runs on patched trees, so that the committed
        # evidence always describes the unchanged tree)
        evdir = os.environ.get("VERIF_EVIDENCE_DIR") or os.path.join(VERIF, "evidence")
        os.makedirs(evdir, exist_ok=True)
        json.dump(ev, open(os.path.join(evdir, f"{self.pid}.json"), "w"), indent=1, default=str)
        for l in lines:
            print(l)
        print(f"{self.pid} {self.tier} seed={self.seed}: {self.evaluations} cases, "
              f"{len(self.nontrivial)} distinct non-trivial, {len(self.disagreements)} disagreements, "
              f"{len(self.violations)} violations, obligations {ev['coverage']['discharged']}/{ev['coverage']['obligations']}, "
              f"{ev['wall_s']}s -> exit {exit_code}")
        return exit_code
