"""C12 — every emitted command is a well-formed, device-acceptable frame; ids advance mod 256."""
import asyncio

from msmart.base_device import Device
from msmart.device.AC import command as C
from msmart.device.AC.device import AirConditioner as AC

import acgen
from common import hx

DOC_FT = {"getcaps": 3, "getstate": 3, "getenergy": 3, "gethumidity": 3, "setstate": 2,
          "toggledisplay": 3, "getprops": 3, "setprops": 2}
DOC_FIRST = {"getcaps": 0xB5, "getstate": 0x41, "getenergy": 0x41, "gethumidity": 0x41, "setstate": 0x40,
             "toggledisplay": 0x41, "getprops": 0xB1, "setprops": 0xB0}
def _is_supported(p):
    """whether a property id can be written: `PropertyId._supported` if it is still there, else probed through encode()"""
    try:
        return bool(p._supported)
    except AttributeError:
        try:
            p.encode(0)
            return True
        except NotImplementedError:
            return False
        except Exception:  # noqa
            return True


SUPPORTED = [p for p in C.PropertyId if _is_supported(p)]
UNSUPPORTED = [p for p in C.PropertyId if not _is_supported(p)]


def gen_command(rng, wild=True):
    """returns (kind, python command object, driver tokens, in_domain)"""
    kind = rng.choice(list(DOC_FT))
    if kind == "getcaps":
        add = rng.random() < 0.5
        return kind, C.GetCapabilitiesCommand(add), f"additional={int(add)}", True
    if kind == "getstate":
        return kind, C.GetStateCommand(), "", True
    if kind == "getenergy":
        return kind, C.GetEnergyUsageCommand(), "", True
    if kind == "gethumidity":
        return kind, C.GetHumidityCommand(), "", True
    if kind == "toggledisplay":
        cmd = C.ToggleDisplayCommand()
        cmd.beep_on = rng.random() < 0.5
        return kind, cmd, f"beep={int(cmd.beep_on)}", True
    if kind == "setstate":
        d = acgen.random_setstate(rng, wild=wild and rng.random() < 0.3)
        if acgen.centi(d["target_temperature"]) is None:
            d["target_temperature"] = 20.5
        dom = 0 <= d["fan_speed"] <= 255
        return kind, acgen.make_setstate(d), acgen.setstate_line(d), dom
    if kind == "getprops":
        n = rng.choice([0, 1, 2, 3, 5, 9, len(C.PropertyId), rng.randrange(0, 130)])
        ids = [rng.choice(list(C.PropertyId)) for _ in range(n)]
        if rng.random() < 0.5:
            ids = list(dict.fromkeys(ids))
        dom = len(ids) <= 120
        return kind, C.GetPropertiesCommand(ids), "ids=" + (",".join(str(int(i)) for i in ids) or "-"), dom
    # setprops
    n = rng.choice([0, 1, 2, 3, 4, 9])
    pool = SUPPORTED if rng.random() < 0.85 else list(C.PropertyId)
    ids = list(dict.fromkeys(rng.choice(pool) for _ in range(n)))
    props = {}
    dom = True
    for i in ids:
        v = rng.choice([0, 1, True, False, 2, 3, 4, 25, 50, 75, 100, 255, rng.randrange(0, 256)])
        if rng.random() < 0.03:
            v = rng.randrange(256, 400)
        props[i] = v
        if i in UNSUPPORTED or (int(v) > 255 and i != C.PropertyId.BREEZE_AWAY):
            dom = False
    toks = "props=" + (",".join(f"{int(k)}:{int(v)}" for k, v in props.items()) or "-")
    return kind, C.SetPropertiesCommand(props), toks, dom


def oracle(ctx, stream, kind, counter, frame_hex, inp):
    """Spec.parseFrame accepts the real frame with the documented header fields"""
    r = ctx.driver.ask(f"spec_parse_frame frame={frame_hex}")
    want_id = (counter + 1) % 256
    ok = r.startswith("ok ")
    if ok:
        f = dict(t.split("=") for t in r.split()[1:])
        body = bytes.fromhex(f["body"]) if f["body"] != "-" else b""
        ok = (f["dev"] == "172" and int(f["ft"]) == DOC_FT[kind] and int(f["id"]) == want_id
              and len(body) > 0 and body[0] == DOC_FIRST[kind])
    if not ok:
        ctx.violate(stream, inp, {"frame": frame_hex, "spec_parse": r},
                    {"dev": 172, "ft": DOC_FT[kind], "id": want_id, "first": DOC_FIRST[kind]},
                    "emitted command is not a well-formed frame of the documented type / next message id")
    return ok


def one(ctx, stream, rng, counter=None):
    kind, cmd, toks, dom = gen_command(rng)
    if counter is None:
        counter = rng.choice([0, 1, 254, 255, 256, 511, rng.randrange(0, 100000)])
    C.Command._message_id = counter
    st, val = acgen.impl_tobytes(cmd)
    after = C.Command._message_id
    line = f"cmd kind={kind} counter={counter} {toks}"
    inp = {"line": line}
    if ctx.driver:
        (mst, mval), mctr = acgen.model_cmd_reply(ctx.driver.ask(line))
        if (st, val, after) != (mst, mval, mctr):
            ctx.disagree(stream, inp, [st, val, after], [mst, mval, mctr])
    ctx.count(f"{stream}:{kind}:{st}")
    if st == "ok":
        if ctx.driver:
            oracle(ctx, stream, kind, counter, val, inp)
    elif dom:
        ctx.violate(stream, inp, {"raised": val}, "a frame", "in-domain command could not be emitted")
    ctx.case(stream, key=line, nontrivial=(st == "ok"), sample={"line": line, "impl": val[:80]})
    return st, after


def sequence(ctx, rng, n):
    """ids advance by one modulo 256 over a long sequence"""
    start = rng.randrange(0, 1000)
    C.Command._message_id = start
    emitted = 0
    for i in range(n):
        kind, cmd, toks, dom = gen_command(rng, wild=False)
        if not dom:
            continue        # only in-domain commands: every one of them must be emitted
        before = C.Command._message_id
        st, val = acgen.impl_tobytes(cmd)
        if st != "ok":
            ctx.violate("sequence", {"start": start, "index": i, "kind": kind, "tokens": toks}, {"raised": val},
                        "a frame", "in-domain command could not be emitted")
            break
        want = (start + emitted + 1) % 256
        got = bytes.fromhex(val)[-3]
        if got != want:
            ctx.violate("sequence", {"start": start, "index": i, "kind": kind}, {"id": got}, {"id": want},
                        "message id does not advance by one modulo 256")
            break
        if ctx.driver and i % 37 == 0:
            oracle(ctx, "sequence", kind, before, val, {"start": start, "index": i})
        emitted += 1
    ctx.case("sequence", key=(start, n), sample={"start": start, "commands": n, "emitted": emitted})


def public_ops(ctx, rng):
    """frames emitted by every public AirConditioner operation"""
    captured = []

    async def fake_send(self, command):
        before = C.Command._message_id
        captured.append((type(command).__name__, before, command.tobytes()))
        return []
    orig = Device._send_command
    Device._send_command = fake_send
    kinds = {"GetCapabilitiesCommand": "getcaps", "GetStateCommand": "getstate", "GetEnergyUsageCommand": "getenergy",
             "GetHumidityCommand": "gethumidity", "SetStateCommand": "setstate", "ToggleDisplayCommand": "toggledisplay",
             "GetPropertiesCommand": "getprops", "SetPropertiesCommand": "setprops"}
    try:
        for _ in range(20 if ctx.tier == "quick" else 200):
            dev = AC(ip="1.2.3.4", port=6444, device_id=rng.randrange(0, 2 ** 48))
            dev._request_energy_usage = rng.random() < 0.5
            dev._supports_humidity = rng.random() < 0.5
            dev._supported_properties = set(rng.sample(SUPPORTED, rng.randrange(0, len(SUPPORTED))))
            dev.beep = rng.random() < 0.5
            ops = []
            for _ in range(rng.randrange(1, 6)):
                op = rng.choice(["refresh", "apply", "get_capabilities", "toggle_display", "start_self_clean", "set"])
                ops.append(op)
                if op == "set":
                    dev.target_temperature = rng.choice([x / 2 for x in range(26, 88)])
                    dev.fan_speed = rng.randrange(0, 103)
                    dev.operational_mode = rng.choice(list(AC.OperationalMode))
                    dev.horizontal_swing_angle = rng.choice(list(AC.SwingAngle))
                    dev.rate_select = rng.choice(list(AC.RateSelect))
                    dev.ieco = rng.random() < 0.5
                    dev.breeze_away = rng.random() < 0.5
                else:
                    try:
                        asyncio.run(getattr(dev, op)())
                    except Exception as e:  # noqa  the operation could not emit one of its own (in-domain) commands
                        ctx.violate("public_ops", {"ops": ops, "operation": op}, {"raised": type(e).__name__ + ": " + str(e)[:80]},
                                    "every command of a public operation is emitted", "a public operation failed to emit a command")
                        break
            for name, before, frame in captured:
                oracle(ctx, "public_ops", kinds[name], before, hx(frame), {"ops": ops, "command": name})
                ctx.case("public_ops", key=hx(frame), sample={"ops": ops, "command": name, "frame": hx(frame)})
            captured.clear()
    finally:
        Device._send_command = orig


def wire_ids(ctx, rng, debug_logging):
    """what a DEVICE sees: the real operations through the real `Device._send_command` and LAN layer (V2, virtual-time
    loop, simulated unit), optionally with DEBUG logging switched on and a handler that formats every record (as an
    application that logs to a file does).  Consecutive frames on the wire carry ids advancing by exactly one."""
    import io
    import logging
    import simdev
    import vloop
    # the unit answers with real state responses whose body check is the CRC-8 or the additive checksum (both legal):
    # what the unit sends must have no influence on the well-formedness of what the library emits next
    import specac
    style = rng.choice(["crc", "sum"])
    dev = simdev.SimDevice(version=2, device_id=55, responder=specac.SpecAC(ctx, style=style)) if ctx.driver else \
        simdev.SimDevice(version=2, device_id=55)
    start = rng.randrange(0, 600)
    ops = [rng.choice(["refresh", "apply", "get_capabilities", "toggle_display", "refresh"]) for _ in range(rng.randrange(3, 8))]
    res = {}

    async def scenario(loop, net):
        net.add_tcp("1.2.3.4", 6444, dev)
        ac = AC(ip="1.2.3.4", port=6444, device_id=55)
        C.Command._message_id = start
        for op in ops:
            try:
                await getattr(ac, op)()
            except Exception as e:  # noqa
                res["exc"] = f"{op}: {type(e).__name__}"
    prev_disable = logging.root.manager.disable
    handler = None
    lg = logging.getLogger("msmart")
    prev_level = lg.level
    if debug_logging:
        logging.disable(logging.NOTSET)
        handler = logging.StreamHandler(io.StringIO())
        handler.setFormatter(logging.Formatter("%(asctime)s %(name)s %(message)s"))
        lg.addHandler(handler)
        lg.setLevel(logging.DEBUG)
    try:
        vloop.run(scenario)
    finally:
        if handler is not None:
            lg.removeHandler(handler)
        lg.setLevel(prev_level)
        logging.disable(prev_disable)
    frames = []
    for f in dev.frames():
        if not frames or frames[-1] != f:        # a retransmission of an unanswered command is the same command
            frames.append(f)
    ids = [f[-3] for f in frames if len(f) >= 13]
    inp = {"ops": ops, "start": start, "debug_logging": debug_logging}
    stream = "wire_ids_logging" if debug_logging else "wire_ids"
    if "exc" in res:
        ctx.violate(stream, inp, res["exc"], "operations return", "operation raised")
    if ctx.driver:
        for f in frames:
            r = ctx.driver.ask(f"spec_parse_frame frame={hx(f)}")
            if not r.startswith("ok"):
                ctx.violate(stream, {**{"ops": ops, "reply_check_style": style}, "frame": hx(f)}, r, "a well-formed frame",
                            "a frame the unit received on the wire is not well-formed (start, length, type, CRC-8, checksum)")
                break
    want = [(start + 1 + i) % 256 for i in range(len(ids))]
    if ids != want:
        ctx.violate(stream, inp, {"ids": ids[:12]}, {"ids": want[:12]},
                    "message ids of consecutive frames on the wire do not advance by one modulo 256")
    ctx.case(stream, key=(tuple(ops), start, debug_logging), sample={**inp, "frames": len(frames)})


def run(ctx):
    rng = ctx.rng
    for _ in range(6 if ctx.tier == "quick" else 60):
        wire_ids(ctx, rng, False)
        wire_ids(ctx, rng, True)
    n = 1500 if ctx.tier == "quick" else 40000
    for _ in range(n):
        one(ctx, "cmd_tobytes", rng)
    # every counter residue for one command of each class
    for k in range(0, 520):
        one(ctx, "counter_sweep", rng, counter=k)
    sequence(ctx, rng, 600 if ctx.tier == "quick" else 5000)
    if ctx.driver:
        public_ops(ctx, rng)


def search(ctx):
    rng = ctx.rng
    for _ in range(20000):
        one(ctx, "search", rng)
        if ctx.violations:
            return
    sequence(ctx, rng, 3000)


def replay(ctx, case):
    line = case["input"].get("line")
    print("replay:", case.get("what"))
    if line:
        print("model:", ctx.driver.ask(line) if ctx.driver else "n/a")
    print("recorded impl:", case.get("observed"))
    return 0
