"""C09 — transport containment: peer bytes cause only protocol errors or timeouts."""
import hashlib

from Crypto.Cipher import AES

import lanimpl
import simdev
import vloop
from common import hx, lan_of
from msmart.device.AC.command import GetStateCommand
from msmart.device.AC.device import AirConditioner as AC
from msmart.lan import AuthenticationError, ProtocolError

ALLOWED = ("ok", "err:protocol", "err:auth", "err:timeout")
STATE = bytes.fromhex("aa22ac00000000000303c0014566000000300010045cff2070000000000000008bed19")


def rb(rng, n):
    return bytes(rng.randrange(256) for _ in range(n))


def signed_v2(rng, ciphertext, length_field=None, marker=b"\x5a\x5a"):
    """a V2 packet with a VALID signature over arbitrary ciphertext"""
    total = 40 + len(ciphertext) + 16
    lf = total if length_field is None else length_field
    hdr = marker + b"\x01\x11" + (lf & 0xFFFF).to_bytes(2, "little") + b"\x20\x00" + bytes(4) + rb(rng, 8) + rb(rng, 8) + bytes(12)
    body = hdr + ciphertext
    return body + hashlib.md5(body + simdev.SIGN_KEY).digest()


def signed_short(rng, total, length_field=None):
    """a correctly SIGNED V2 packet of any total length >= 22 (6 header bytes + signature), e.g. shorter than the
    40-byte header: marker, type, length field (= total unless forced), random rest, MD5 over all of it"""
    lf = total if length_field is None else length_field
    body = b"\x5a\x5a\x01\x11" + (lf & 0xFFFF).to_bytes(2, "little") + rb(rng, total - 16 - 6)
    return body + hashlib.md5(body + simdev.SIGN_KEY).digest()


def v3_wrap(key, ptype, ctr, plaintext_after_ctr, size=None, pad=None, ct_override=None, magic=0x20):
    """a V3 packet with a VALID tag; fields can be forced to inconsistent values"""
    data = plaintext_after_ctr
    p = (16 - (len(data) + 2) % 16) % 16 if pad is None else pad
    plain = ctr.to_bytes(2, "big") + data + bytes((16 - (len(data) + 2) % 16) % 16)
    sz = (len(plain) - 2 + 32) if size is None else size
    hdr = b"\x83\x70" + (sz & 0xFFFF).to_bytes(2, "big") + bytes([magic, ((p & 0xF) << 4) | (ptype & 0xF)])
    ct = AES.new(key, AES.MODE_CBC, iv=bytes(16)).encrypt(plain) if ct_override is None else ct_override
    tagged = plain if ct_override is None else ct_override
    return hdr + ct + hashlib.sha256(hdr + tagged).digest()


def adversarial_replies(rng, version, key_for_conn):
    """a catalogue of malformed replies; each is bytes to send in answer to a data request"""
    out = []
    # --- V2 layer (also used as the inner packet of V3 replies)
    v2 = []
    for n in (0, 1, 15, 16, 17, 31, 32, 33, 48, 100):
        v2.append(("signed_random_ct_%d" % n, signed_v2(rng, rb(rng, n))))
    good_ct = AES.new(simdev.ENC_KEY, AES.MODE_ECB).encrypt(STATE + bytes([13] * 13))
    for bad_pad in (0, 17, 200, 255):
        blk = AES.new(simdev.ENC_KEY, AES.MODE_ECB).encrypt(bytes(15) + bytes([bad_pad]))
        v2.append(("signed_bad_padding_%d" % bad_pad, signed_v2(rng, blk)))
    v2.append(("signed_good", signed_v2(rng, good_ct)))
    # AUTHENTIC packets (properly padded, encrypted and signed) that carry a DEGENERATE frame: empty, one byte, not
    # starting with 0xAA, a bare header, random bytes - every frame length 0..20 and a few longer ones
    def authentic(frame):
        pad = 16 - len(frame) % 16
        return signed_v2(rng, AES.new(simdev.ENC_KEY, AES.MODE_ECB).encrypt(frame + bytes([pad] * pad)))
    for n in list(range(0, 21)) + [31, 32, 33, 47, 48]:
        v2.append(("authentic_zero_frame_%d" % n, authentic(bytes(n))))
        v2.append(("authentic_random_frame_%d" % n, authentic(rb(rng, n))))
        v2.append(("authentic_aa_prefix_frame_%d" % n, authentic((b"\xaa" + rb(rng, n))[:n])))
    v2.append(("authentic_state_truncated", authentic(STATE[:rng.randrange(1, len(STATE))])))
    for lf in (0, 5, 6, 39, 40, 55, 56, 57, 0xFFFF):
        v2.append(("length_field_%d" % lf, signed_v2(rng, good_ct, length_field=lf)))
    for total in range(22, 60):
        v2.append(("signed_short_%d" % total, signed_short(rng, total)))
    for total in (22, 30, 39, 40, 41, 55, 56):
        v2.append(("signed_short_%d_lf_%d" % (total, 6), signed_short(rng, total, length_field=6)))
        v2.append(("signed_short_%d_lf_%d" % (total, total - 1), signed_short(rng, total, length_field=total - 1)))
    v2.append(("wrong_marker", signed_v2(rng, good_ct, marker=b"\x5a\x5b")))
    v2.append(("raw_frame", STATE))
    for n in (0, 1, 5, 6, 7, 40, 56):
        v2.append(("random_%d" % n, rb(rng, n)))
    v2.append(("truncated_good", signed_v2(rng, good_ct)[:rng.randrange(6, 80)]))
    if version == 2:
        return v2
    # --- V3 layer
    for name, inner in v2:
        out.append(("v3[" + name + "]", lambda key, inner=inner: v3_wrap(key, 3, 0, inner)))
    for t in range(16):
        out.append(("type_%x" % t, lambda key, t=t: v3_wrap(key, t, 1, signed_v2(rng, good_ct))))
    for n in (1, 7, 15, 17, 31, 33):
        out.append(("unaligned_ct_%d" % n, lambda key, n=n: v3_wrap(key, 3, 0, b"", ct_override=rb(rng, n), size=n + 32 - 2)))
    out.append(("empty_ct", lambda key: v3_wrap(key, 3, 0, b"", ct_override=b"", size=32 - 2)))
    for pad in range(16):
        out.append(("pad_nibble_%d" % pad, lambda key, pad=pad: v3_wrap(key, 3, 0, signed_v2(rng, good_ct), pad=pad)))
    for sz in (0, 1, 2, 24, 30, 31, 32, 33, 0xFFF0):
        out.append(("size_%d" % sz, lambda key, sz=sz: v3_wrap(key, 3, 0, signed_v2(rng, good_ct), size=sz)))
    out.append(("bad_magic", lambda key: v3_wrap(key, 3, 0, signed_v2(rng, good_ct), magic=0x21)))
    out.append(("wrong_key", lambda key: v3_wrap(rb(rng, 32), 3, 0, signed_v2(rng, good_ct))))
    out.append(("error_packet", lambda key: simdev.ERROR_PACKET))
    for n in (0, 1, 5, 6, 7, 8, 9, 40):
        out.append(("random_%d" % n, lambda key, n=n: rb(rng, n)))
        out.append(("marker_random_%d" % n, lambda key, n=n: b"\x83\x70" + n.to_bytes(2, "big") + rb(rng, n + 4)))
    return out


def run_case(ctx, stream, version, phase, name, make, level):
    """phase: 'data' (reply to a data request) or 'handshake' (reply to the handshake request)"""
    rng = ctx.rng
    token, key = rb(rng, 64), rb(rng, 32)
    dev = simdev.SimDevice(version=version, device_id=77, token=token if version == 3 else None,
                           key=key if version == 3 else None)
    result = {}

    def custom(d, tr, info):
        conn = d.conns[tr.cid]
        sk = conn.get("session_key") or bytes(32)
        data = make(sk) if callable(make) else make
        tr.deliver(0.05, data)

    async def scenario(loop, net):
        net.add_tcp("1.2.3.4", 6444, dev)
        ac = AC(ip="1.2.3.4", port=6444, device_id=77)
        try:
            if version == 3:
                if phase == "handshake":
                    dev.script = [("custom", custom)]
                await ac.authenticate(token, key)
            if phase == "rehandshake":
                # the session is lost (peer closes every connection); the next operation re-authenticates BY ITSELF with the
                # stored credentials, and it is THAT handshake the peer answers adversarially
                import asyncio as _a
                for cid in list(dev.conns):
                    tr = dev.conns[cid].get("transport")
                    if tr is not None:
                        tr.peer_close(0.01)
                await _a.sleep(0.1)
                dev.script = [("custom", custom)]
            if phase == "data":
                dev.script = [("custom", custom)]
            if level == "lan":
                r = await lan_of(ac).send(GetStateCommand().tobytes())
                result["out"] = "ok"
            elif level == "send_command":
                r = await ac._send_command(GetStateCommand())
                result["out"] = "ok" if isinstance(r, list) else "err:py:not-a-list"
            else:
                await ac.refresh()
                result["out"] = "ok"
        except AuthenticationError:
            result["out"] = "err:auth"
        except ProtocolError:
            result["out"] = "err:protocol"
        except TimeoutError:
            result["out"] = "err:timeout"
        except Exception as e:  # noqa
            result["out"] = "err:py:" + type(e).__name__
        # the object must remain usable: a following exchange with a well-behaved device succeeds
        dev.script = []
        try:
            if version == 3 and phase == "handshake" and result["out"] != "ok":
                # credentials are (rightly) not stored by a failed authentication: supply them again
                await ac.authenticate(token, key)
            await ac.refresh()
            result["after"] = ac.online
        except Exception as e:  # noqa
            result["after"] = "err:py:" + type(e).__name__
    try:
        vloop.run(scenario)
    except Exception as e:  # noqa
        result["out"] = "err:py:" + type(e).__name__ + "(loop)"
    out = result.get("out")
    inp = {"version": version, "phase": phase, "reply": name, "level": level}
    if level in ("send_command", "refresh"):
        ok = out == "ok"
    elif phase == "handshake":
        ok = out in ALLOWED
    else:
        ok = out in ALLOWED
    if not ok:
        ctx.violate(stream, inp, out, "decoded frames, protocol/authentication error or timeout" if level == "lan" else "normal return",
                    f"{out} escaped the transport layer")
    # (recovery after a failed *handshake* is C08's subject: see D9 there)
    if result.get("after") is not True and ok and phase in ("data", "rehandshake"):
        ctx.violate(stream, inp, {"following_refresh": result.get("after")}, True,
                    "device object not usable after an adversarial reply")
    ctx.count(f"{stream}:{out}")
    ctx.case(stream, key=(version, phase, name, level), sample={**inp, "outcome": out})


def run(ctx):
    rng = ctx.rng
    reps = 1 if ctx.tier == "quick" else 8
    for _ in range(reps):
        for name, pkt in adversarial_replies(rng, 2, None):
            for level in ("lan", "refresh"):
                run_case(ctx, "v2_data", 2, "data", name, pkt, level)
        cat3 = adversarial_replies(rng, 3, None)
        for name, make in cat3:
            run_case(ctx, "v3_data", 3, "data", name, make, "lan")
            run_case(ctx, "v3_data_refresh", 3, "data", name, make, rng.choice(["refresh", "send_command"]))
            run_case(ctx, "v3_handshake", 3, "handshake", name, make, "lan")
            run_case(ctx, "v3_rehandshake", 3, "rehandshake", name, make, rng.choice(["refresh", "send_command", "lan"]))


def search(ctx):
    run(ctx)


def replay(ctx, case):
    print(case["input"], "->", case["observed"])
    return 0
