"""C04 — V3 stream reassembly is segmentation-independent."""
import asyncio
import itertools

import msmart.lan as lan

import simdev
import vloop
from common import hx, lan_of


def _drain(p):
    """everything queued so far, as raw packets: through the receive queue if it is where it used to be, otherwise
    through the base protocol class's own non-blocking read()"""
    q = getattr(p, "_queue", None)
    got = []
    if isinstance(q, asyncio.Queue):
        while True:
            try:
                got.append(q.get_nowait())
            except asyncio.QueueEmpty:
                return got

    async def rd():
        while True:
            try:
                got.append(await lan._LanProtocol.read(p, timeout=0))
            except asyncio.QueueEmpty:
                return
    asyncio.run(rd())
    return got


def impl_feed(segs):
    p = lan._LanProtocolV3()
    out = []
    for s in segs:
        p.data_received(bytes(s))
        out.append(_drain(p))
    buf = getattr(p, "_buffer", None)
    return out, (bytes(buf) if buf is not None else None)


def interleaved_objects(ctx, rng, n):
    """reassembly state belongs to ONE connection: two (three) protocol objects of one process fed alternately with the
    segments of their own, different streams deliver exactly what each delivers when fed alone"""
    for _ in range(n):
        k = rng.choice([2, 2, 3])
        streams = []
        for _j in range(k):
            packets = [mk_packet(rng, rng.choice([0, 1, 5, 8, 16, 33]), seeded=rng.random() < 0.5) for _ in range(rng.randrange(1, 4))]
            data = garbage(rng) + b"".join(packets)
            cuts = sorted(rng.sample(range(1, len(data)), min(len(data) - 1, rng.randrange(1, 6))))
            segs = [data[a:b] for a, b in zip([0] + cuts, cuts + [len(data)])]
            streams.append((packets, segs))
        alone = [[x for seg in impl_feed(segs)[0] for x in seg] for _p, segs in streams]
        protos = [lan._LanProtocolV3() for _ in streams]
        got = [[] for _ in streams]
        pos = [0] * k
        while any(pos[j] < len(streams[j][1]) for j in range(k)):
            j = rng.choice([j for j in range(k) if pos[j] < len(streams[j][1])])
            protos[j].data_received(bytes(streams[j][1][pos[j]]))
            got[j] += _drain(protos[j])
            pos[j] += 1
        inp = {"streams": [[hx(s_) for s_ in segs] for _p, segs in streams]}
        for j in range(k):
            if got[j] != alone[j] or got[j] != streams[j][0]:
                ctx.violate("interleaved_objects", inp, {"object": j, "delivered": [hx(x) for x in got[j]]},
                            {"delivered": [hx(x) for x in streams[j][0]]},
                            "a protocol object fed in alternation with another one delivers something else than when fed alone")
                break
        ctx.case("interleaved_objects", key=str(inp), sample={"objects": k, "segments": [len(sg) for _p, sg in streams]})


def slow_segments(ctx, rng, n):
    """the stream arrives SLOWLY: seconds, minutes or hours between two TCP segments (virtual clock - the library's
    `datetime.now()` and the loop time are both driven by it).  What has been received stays received: each packet is
    delivered when its last byte arrives, however long that takes."""
    import asyncio as _a
    for _ in range(n):
        packets = [mk_packet(rng, rng.choice([0, 1, 5, 8, 16, 33]), seeded=rng.random() < 0.5) for _ in range(rng.randrange(1, 4))]
        data = garbage(rng) + b"".join(packets)
        cuts = sorted(rng.sample(range(1, len(data)), min(len(data) - 1, rng.randrange(1, 5))))
        segs = [data[a:b] for a, b in zip([0] + cuts, cuts + [len(data)])]
        gaps = [rng.choice([0.0, 0.5, 1.9, 2.1, 3.0, 30.0, 3600.0, 50000.0]) for _ in segs]
        got = []

        async def scenario(loop, net):
            p = lan._LanProtocolV3()
            for sg, gp in zip(segs, gaps):
                await _a.sleep(gp)
                p.data_received(bytes(sg))
                # the receive queue through the base class's own non-blocking read(): no private name involved
                while True:
                    try:
                        got.append(await lan._LanProtocol.read(p, timeout=0))
                    except _a.QueueEmpty:
                        break
        try:
            vloop.run(scenario)
        except Exception as e:  # noqa
            got = ["exc:" + type(e).__name__]
        inp = {"segments": [hx(x) for x in segs], "gaps_s": gaps}
        if got != packets:
            ctx.violate("slow_segments", inp, [hx(x) if isinstance(x, bytes) else x for x in got], [hx(x) for x in packets],
                        "packets of a slowly arriving stream are not delivered exactly once, complete and in order")
        ctx.case("slow_segments", key=str(inp), sample={"segments": len(segs), "gaps": gaps})


def mk_packet(rng, n, seeded=False):
    """a V3-framed packet with an n-byte body after the 6-byte header: size field = n - 2"""
    body = bytearray(rng.randrange(256) for _ in range(n + 2))
    if seeded and n >= 2:
        i = rng.randrange(0, n)
        body[i:i + 2] = rng.choice([b"\x83\x70", b"\x83\x83", b"\x70\x83", b"\x83\x70"])[:max(0, min(2, n + 2 - i))]
    return b"\x83\x70" + n.to_bytes(2, "big") + b"\x20" + bytes([rng.randrange(256)]) + bytes(body)


def garbage(rng):
    n = rng.choice([0, 0, 1, 2, 5, 9])
    g = bytearray(rng.randrange(256) for _ in range(n))
    for i in range(len(g) - 1):
        if g[i] == 0x83 and g[i + 1] == 0x70:
            g[i + 1] = 0x71
    if n and rng.random() < 0.4:
        g[-1] = 0x83
    return bytes(g)


def check(ctx, stream, g, packets, cuts):
    data = g + b"".join(packets)
    pos = [0] + list(cuts) + [len(data)]
    segs = [data[a:b] for a, b in zip(pos, pos[1:])]
    out, buf = impl_feed(segs)
    inp = {"garbage": hx(g), "packets": [hx(p) for p in packets], "cuts": list(cuts)}
    if ctx.driver:
        m = ctx.driver.ask("reasm segs=" + ",".join(hx(s) for s in segs if len(s)))
        segs_ne = [i for i, s in enumerate(segs) if len(s)]
        impl_s = "q=" + "|".join(";".join(hx(p) for p in out[i]) for i in segs_ne) + " buf=" + (hx(buf) if buf is not None else "?")
        if buf is None:
            # the left-over buffer is not observable under its usual name: compare the queued packets only
            m = m.split(" buf=")[0] + " buf=?"
            ctx.count("buffer-not-observable")
        if m != impl_s:
            ctx.disagree(stream, inp, impl_s, m)
    flat = [p for o in out for p in o]
    if flat != list(packets):
        ctx.violate(stream, inp, [hx(p) for p in flat], [hx(p) for p in packets],
                    "packets not delivered exactly once, complete and in order")
    else:
        # delivered by the call that carries the packet's last byte
        ends = list(itertools.accumulate([len(g) + len(packets[0])] + [len(p) for p in packets[1:]])) if packets else []
        k = 0
        for i, o in enumerate(out):
            for _ in o:
                last_byte = ends[k] - 1
                if not (pos[i] <= last_byte < pos[i + 1]):
                    ctx.violate(stream, inp, {"packet": k, "delivered_in_segment": i}, {"last_byte": last_byte},
                                "packet not delivered by the segment that carries its last byte")
                k += 1
        if buf is not None and buf != b"":
            ctx.violate(stream, inp, hx(buf), "-", "bytes left in the buffer after a complete stream")
    ctx.count(f"{stream}:packets={len(packets)}:cuts={len(cuts)}")
    ctx.case(stream, key=(hx(data), tuple(cuts)), sample={"packets": len(packets), "total": len(data), "cuts": list(cuts)[:8]})


GAP = 0.002   # between segments; the whole reply must arrive well inside the 2 s read timeout


def through_lan(ctx, rng, n):
    """real LAN.send on a V3 connection; the device's reply is delivered in chosen segments 50 ms
    apart: send() returns at the time of the segment that carries the last byte"""
    from msmart.device.AC.device import AirConditioner as AC
    token = bytes(rng.randrange(256) for _ in range(64))
    key = bytes(rng.randrange(256) for _ in range(32))
    for _ in range(n):
        dev_sim = simdev.SimDevice(version=3, device_id=123, token=token, key=key)
        ncuts = rng.choice([0, 1, 2, 3, 7, "bytewise"])
        frame = bytes.fromhex("aa22ac00000000000303c0014566000000300010045cff2070000000000000008bed19")
        nframes = rng.randrange(1, 4)

        def action_cuts(total):
            if ncuts == "bytewise":
                return list(range(1, total))
            return sorted(rng.sample(range(1, total), min(ncuts, total - 1)))
        result = {}

        async def scenario(loop, net):
            net.add_tcp("1.2.3.4", 6444, dev_sim)
            ac = AC(ip="1.2.3.4", port=6444, device_id=123)
            await ac.authenticate(token, key)
            # learn the reply length by building it once
            probe = dev_sim.wrap(dev_sim.conns[1], 1, [frame] * nframes)
            cuts = action_cuts(len(probe))
            dev_sim.responder = lambda f: [frame] * nframes
            dev_sim.script = [("segments", cuts, 0.1, GAP)]
            t0 = loop.now()
            from msmart.device.AC.command import GetStateCommand
            resp = await lan_of(ac).send(GetStateCommand().tobytes())
            result.update(t=loop.now() - t0, n=len(resp), cuts=cuts, total=len(probe), resp=resp)
        try:
            vloop.run(scenario)
        except Exception as e:  # noqa
            ctx.violate("through_lan", {"cuts": str(ncuts), "frames": nframes}, type(e).__name__ + ": " + str(e)[:80], "frames",
                        "exchange with a segmented reply failed")
            ctx.case("through_lan", key=str(rng.random()))
            continue
        cuts = result["cuts"]
        # V3 reply = nframes packets coalesced; the first is complete at its last byte
        first_len = result["total"] // nframes
        seg_of_first_last = sum(1 for c in cuts if c <= first_len - 1)
        want_t = 0.1 + GAP * seg_of_first_last
        inp = {"cuts": cuts[:12], "ncuts": len(cuts), "frames": nframes, "total": result["total"]}
        if abs(result["t"] - want_t) > 1e-6:
            ctx.violate("through_lan", inp, {"t": result["t"]}, {"t": want_t},
                        "send() did not return when the segment carrying the packet's last byte arrived")
        if any(r != frame for r in result["resp"]) or result["n"] < 1:
            ctx.violate("through_lan", inp, [hx(r) for r in result["resp"]], hx(frame), "wrong frames returned")
        ctx.case("through_lan", key=(tuple(cuts), nframes), sample=inp)


def run(ctx):
    rng = ctx.rng
    thorough = ctx.tier == "thorough"
    maxlen = 48 if not thorough else 96
    sizes = [0, 1, 2, 5, 6, 7, 8, 15, 16, 17, 64]
    # exhaustive: all segmentations with <= 3 cuts for short streams
    done = 0
    for npk in (1, 2, 3, 4):
        for _ in range(3 if not thorough else 10):
            while True:
                packets = [mk_packet(rng, rng.choice([0, 1, 2, 5, 6, 7, 8]), seeded=rng.random() < 0.5) for _ in range(npk)]
                g = garbage(rng)
                if len(g) + sum(map(len, packets)) <= maxlen:
                    break
            total = len(g) + sum(map(len, packets))
            for k in range(0, 4):
                for cuts in itertools.combinations(range(1, total), k):
                    check(ctx, "exhaustive_le3cuts", g, packets, cuts)
                    done += 1
    # byte-by-byte and random many-cut segmentations of larger streams
    for _ in range(150 if not thorough else 3000):
        packets = [mk_packet(rng, rng.choice(sizes + [rng.randrange(0, 200)]), seeded=rng.random() < 0.5)
                   for _ in range(rng.randrange(1, 5))]
        g = garbage(rng)
        total = len(g) + sum(map(len, packets))
        check(ctx, "bytewise", g, packets, tuple(range(1, total)))
        k = rng.randrange(0, min(total - 1, 40) + 1)
        check(ctx, "random_cuts", g, packets, tuple(sorted(rng.sample(range(1, total), k))))
        check(ctx, "coalesced", g, packets, ())
    interleaved_objects(ctx, rng, 60 if not thorough else 1500)
    slow_segments(ctx, rng, 40 if not thorough else 600)
    through_lan(ctx, rng, 25 if not thorough else 300)


def search(ctx):
    run(ctx)


def replay(ctx, case):
    inp = case["input"]
    if "packets" in inp:
        g = bytes.fromhex(inp["garbage"]) if inp["garbage"] != "-" else b""
        packets = [bytes.fromhex(p) for p in inp["packets"]]
        data = g + b"".join(packets)
        pos = [0] + inp["cuts"] + [len(data)]
        segs = [data[a:b] for a, b in zip(pos, pos[1:])]
        out, buf = impl_feed(segs)
        print("impl :", [[hx(p) for p in o] for o in out], hx(buf) if buf is not None else "?")
        if ctx.driver:
            print("model:", ctx.driver.ask("reasm segs=" + ",".join(hx(s) for s in segs if len(s))))
    else:
        print(case)
    return 0
