"""C17 — discovery reports each replying device with exactly its advertised identity."""
import discsim
from common import hx
from discsim import ascii_bytes, rb
from msmart.base_device import Device
from msmart.const import DISCOVERY_MSG
from msmart.device.AC.device import AirConditioner as AC


def one(ctx, stream, rng, version, device_id, port, dtype, upper, src_ip, reported_ip, single=False, auto_connect=False):
    sn = ascii_bytes(rng, 32)
    hh = ("%02X" if upper else "%02x") % dtype
    name = b"net_" + hh.encode() + b"_" + ascii_bytes(rng, rng.randrange(0, 12))
    pkt = discsim.spec_reply(ctx, rng, version, device_id, reported_ip, port, sn, name, extra=rb(rng, rng.randrange(0, 20)))
    out = discsim.run_discover([(0.1, src_ip, rng.choice([6445, 6445, 50000]), pkt)], single=single, target=src_ip if single else "255.255.255.255",
                               auto_connect=auto_connect)
    inp = {"version": version, "id": device_id, "port": port, "type": dtype, "src": src_ip, "reported": reported_ip,
           "name": name.decode(), "packet": hx(pkt)}
    if auto_connect:
        inp["auto_connect"] = True
    if "exc" in out:
        ctx.violate(stream, inp, type(out["exc"]).__name__, "one device", "discover() raised on a well-formed reply")
        ctx.case(stream, key=hx(pkt))
        return
    res = out["result"]
    want = f"port={port} id={device_id} sn={hx(sn)} name={hx(name)} type={dtype} version={version}"
    m = ctx.driver.ask(f"discover_info version={version} data={hx(pkt)}")
    if len(res) == 1:
        got = discsim.canon_device(res[0])
        if m != "ok " + got:
            ctx.disagree(stream, inp, got, m)
    if (len(res) != 1 or discsim.canon_device(res[0]) != want or res[0].ip != src_ip):
        ctx.violate(stream, inp, [discsim.canon_device(d) + " ip=" + d.ip for d in res], want + " ip=" + src_ip,
                    "reported device does not carry exactly the advertised identity and the source address")
    else:
        is_ac = isinstance(res[0], AC)
        if is_ac != (dtype == 0xAC) or not isinstance(res[0], Device):
            ctx.violate(stream, inp, type(res[0]).__name__, "AirConditioner iff type 0xAC", "wrong device class")
    # the probe: the one real devices answer, on the port they listen on
    sent = out.get("sent", [])
    ports = sorted(set(a[1] for _, _, a in sent))
    probes = set(bytes(d) for _, d, _ in sent)
    if 6445 not in ports or 20086 not in ports:
        ctx.violate(stream, {"ports": ports}, ports, [6445, 20086], "probe not sent to the ports devices listen on")
    ctx.count(f"{stream}:v{version}:type={'ac' if dtype == 0xAC else 'other'}")
    ctx.case(stream, key=hx(pkt), sample={k: inp[k] for k in ("version", "id", "port", "type", "src", "reported", "name")})
    return probes


def several_units(ctx, rng, versions):
    """several units answering ONE scan, every free byte of their replies zero (unset clocks): each is reported with its
    own identity"""
    units = []
    for i, v in enumerate(versions):
        sn = ascii_bytes(rng, 32)
        name = b"net_ac_" + ascii_bytes(rng, 4)
        did, port, ip = rng.randrange(2 ** 48), rng.choice([6444, 1234]), f"10.55.0.{i + 1}"
        units.append((v, did, port, sn, name, ip,
                      discsim.spec_reply(ctx, rng, v, did, ip, port, sn, name, zero_fill=True)))
    out = discsim.run_discover([(0.1 + 0.01 * i, u[5], 6445, u[6]) for i, u in enumerate(units)])
    inp = {"versions": list(versions), "ids": [u[1] for u in units]}
    got = sorted((d.ip, discsim.canon_device(d)) for d in (out.get("result") or []))
    want = sorted((u[5], f"port={u[2]} id={u[1]} sn={hx(u[3])} name={hx(u[4])} type={0xAC} version={u[0]}") for u in units)
    if "exc" in out or got != want:
        ctx.violate("several_units", inp, {"exc": str(out.get("exc"))[:60], "reported": got}, want,
                    "units answering the same scan are not each reported with exactly their advertised identity")
    ctx.case("several_units", key=str(inp), sample=inp)


def probe_check(ctx):
    """the probe constant is a correctly signed V2 packet (spec decoder), as regenerated this run"""
    r = ctx.driver.ask(f"spec_v2_decode data={hx(DISCOVERY_MSG)}")
    if not r.startswith("ok "):
        ctx.violate("probe", {"probe": hx(DISCOVERY_MSG)}, r, "a valid V2 packet", "discovery probe is not a well-formed signed V2 packet")
    ctx.case("probe", key=hx(DISCOVERY_MSG), sample={"spec_decode": r})


def run(ctx):
    rng = ctx.rng
    if not ctx.driver:
        return
    thorough = ctx.tier == "thorough"
    probe_check(ctx)
    probes = set()
    ids = [0, 1, 2 ** 8, 2 ** 16 - 1, 2 ** 24, 2 ** 32, 2 ** 40 + 7, 2 ** 48 - 1]
    ports = [1, 80, 255, 256, 6444, 65535]
    for dtype in range(256):
        if not thorough and dtype % 8 and dtype not in (0xAC, 0xAB, 0xAD, 0xFF, 0xA1, 0xFA):
            continue
        for upper in (False, True):
            version = rng.choice([2, 3])
            src = f"10.{rng.randrange(256)}.{rng.randrange(256)}.{rng.randrange(1, 255)}"
            rep = src if rng.random() < 0.5 else f"192.168.{rng.randrange(256)}.{rng.randrange(256)}"
            p = one(ctx, "types", rng, version, rng.choice(ids + [rng.randrange(2 ** 48)]), rng.choice(ports + [rng.randrange(1, 65536)]),
                    dtype, upper, src, rep)
            probes |= p or set()
    for device_id in ids:
        for port in ports:
            for version in (2, 3):
                src = f"172.16.{rng.randrange(256)}.{rng.randrange(1, 255)}"
                one(ctx, "fields", rng, version, device_id, port, 0xAC, False, src, src, single=rng.random() < 0.3)
    # the same hosts answer several consecutive scans of one process: every scan reports them again
    # (nothing learned in one discovery run may leak into the next)
    for version in (2, 3):
        for src in ("10.9.8.7", "10.9.8.8"):
            for _scan in range(3):
                one(ctx, "rescan", rng, version, rng.randrange(2 ** 48), 6444, 0xAC, False, src, src, single=(_scan == 2))
    for versions in ((3, 3), (2, 2), (3, 2, 3), (3, 3, 3, 3)):
        several_units(ctx, rng, versions)
    # with the DEFAULT auto-connect (V2 units need no cloud): a unit of any appliance type is still reported with its
    # identity - whether or not it can be refreshed (nothing listens on its TCP port here; generic devices cannot refresh)
    for dtype in [0xAC, 0xA1, 0xDB, 0xE1, 0x00, 0xFF] + ([rng.randrange(256) for _ in range(4)] if not thorough else list(range(0, 256, 7))):
        src = f"10.77.{rng.randrange(256)}.{rng.randrange(1, 255)}"
        one(ctx, "auto_connect_v2", rng, 2, rng.randrange(2 ** 48), 6444, dtype, rng.random() < 0.5, src, src,
            single=rng.random() < 0.3, auto_connect=True)
    # ... also when the host keeps its device id and address but answers differently from scan to scan (new port,
    # name, serial number, protocol version after a firmware update / re-provisioning): each scan reports what THAT
    # scan's reply says
    for src in ("10.9.7.1", "10.9.7.2"):
        did = rng.randrange(2 ** 48)
        for version, port, single in ((2, 6444, False), (3, 6445, False), (3, 1234, True), (2, 6444, False)):
            one(ctx, "rescan_changed_reply", rng, version, did, port, 0xAC, False, src, src, single=single)
    for _ in range(100 if not thorough else 3000):
        src = f"10.0.{rng.randrange(256)}.{rng.randrange(1, 255)}"
        one(ctx, "random", rng, rng.choice([2, 3]), rng.randrange(2 ** 48), rng.randrange(1, 65536), rng.randrange(256),
            rng.random() < 0.5, src, rng.choice([src, "1.2.3.4"]))
    if probes and probes != {bytes(DISCOVERY_MSG)}:
        ctx.violate("probe", {}, [hx(p) for p in probes][:2], hx(DISCOVERY_MSG), "datagram sent is not the discovery probe")


def search(ctx):
    run(ctx)


def replay(ctx, case):
    inp = case["input"]
    if "packet" in inp and ctx.driver:
        print("model:", ctx.driver.ask(f"discover_info version={inp['version']} data={inp['packet']}"))
    print("observed:", case.get("observed"), "expected:", case.get("expected"))
    return 0
