"""C02 — V2 packet codec interoperates (both directions) with an independent implementation."""
import lanimpl
from common import hx

IDS = [0, 1, 2 ** 8 - 1, 2 ** 8, 2 ** 16 - 1, 2 ** 16, 2 ** 24, 2 ** 32 - 1, 2 ** 32, 2 ** 40, 2 ** 48 - 1, 2 ** 48,
       2 ** 56, 2 ** 63, 2 ** 64 - 1]


def one_encode(ctx, stream, device_id, frame):
    out, ts = lanimpl.v2_encode(device_id, frame)
    inp = {"id": device_id, "frame": hx(frame)}
    if out.startswith("err"):
        ctx.violate(stream, inp, out, "a packet", "in-domain frame / id could not be encoded")
        ctx.case(stream, key=(device_id, hx(frame)))
        return
    if ctx.driver:
        m = ctx.driver.ask(f"v2_encode id={device_id} ts={hx(ts)} frame={hx(frame)}")
        if m != out:
            ctx.disagree(stream, inp, out, m)
        dec = ctx.driver.ask(f"spec_v2_decode data={out}")
        want = f"ok id={device_id} frame={hx(frame)}"
        if dec != want:
            ctx.violate(stream, inp, {"packet": out, "spec_decode": dec}, want,
                        "independent decoder does not recover the id and frame from the emitted packet")
    ctx.count(f"{stream}:pad={16 - len(frame) % 16}")
    ctx.case(stream, key=(device_id, hx(frame)), sample={"id": device_id, "len": len(frame), "packet": out[:60]})


def one_decode(ctx, stream, rng, device_id, frame):
    ts = bytes(rng.randrange(256) for _ in range(8))
    filler = bytes(rng.randrange(256) for _ in range(12))
    pkt = ctx.driver.ask(f"spec_v2_encode id={device_id} ts={hx(ts)} filler={hx(filler)} frame={hx(frame)}")
    data = bytes.fromhex(pkt)
    out = lanimpl.v2_decode(data)
    inp = {"id": device_id, "frame": hx(frame), "packet": pkt}
    m = ctx.driver.ask(f"v2_decode data={pkt}")
    if m != out:
        ctx.disagree(stream, inp, out, m)
    if out != hx(frame):
        ctx.violate(stream, inp, out, hx(frame), "packet of the independent encoder not decoded to the frame it carries")
    ctx.case(stream, key=pkt, sample={"id": device_id, "len": len(frame)})


def overflow(ctx, rng):
    for device_id, n in [(2 ** 64, 10), (2 ** 64 + 5, 0), (1, 65464), (1, 65480), (2 ** 70, 65500)]:
        frame = bytes(rng.randrange(256) for _ in range(n))
        out, ts = lanimpl.v2_encode(device_id, frame)
        if ctx.driver:
            m = ctx.driver.ask(f"v2_encode id={device_id} ts={hx(ts or bytes(8))} frame={hx(frame)}")
            if m != out:
                ctx.disagree("overflow", {"id": device_id, "len": n}, out, m[:80])
        ctx.case("overflow", key=(device_id, n), nontrivial=False, sample={"id": device_id, "len": n, "impl": out[:40]})


def long_run(ctx, rng, n):
    """ONE process emits n packets in a row (a daemon polling its units for days emits millions): every one of them is
    decoded by the harness's own V2 decoder (simdev.v2_decode: length field, MD5, AES, padding, id) to the id and frame it
    was built from; the first and last few and a sample also by the Spec through the driver.  n exceeds 2^16, so any
    per-process counter squeezed into a two-byte field has wrapped (or overflowed) by the end."""
    import msmart.lan as lan
    import simdev
    frames = [bytes(rng.randrange(256) for _ in range(k)) for k in (0, 1, 15, 16, 33)]
    ids = [rng.choice(IDS) for _ in range(7)]
    sample = set(range(5)) | set(range(n - 5, n)) | {255, 256, 65535, 65536, 65537} | {rng.randrange(n) for _ in range(10)}
    for i in range(n):
        frame, device_id = frames[i % len(frames)], ids[i % len(ids)]
        inp = {"nth_packet_of_the_process": i, "id": device_id, "frame": hx(frame)}
        try:
            pkt = lan._Packet.encode(device_id, frame)
        except Exception as e:  # noqa
            ctx.violate("long_run", inp, lanimpl.canon_exc(e), "a packet", "in-domain frame / id could not be encoded after a long run of the process")
            break
        try:
            got = simdev.v2_decode(pkt)
        except ValueError as e:
            got = str(e)
        if got != (device_id, frame):
            ctx.violate("long_run", inp, str(got)[:80], "the id and the frame", "independent decoder does not recover the id and frame after a long run of the process")
            break
        if i in sample and ctx.driver:
            dec = ctx.driver.ask(f"spec_v2_decode data={hx(pkt)}")
            if dec != f"ok id={device_id} frame={hx(frame)}":
                ctx.violate("long_run", inp, dec[:80], "ok …", "the Spec decoder does not recover the frame after a long run of the process")
                break
    ctx.case("long_run", key=n, sample={"packets": n})


def run(ctx):
    rng = ctx.rng
    long_run(ctx, rng, 66000 if ctx.tier == "quick" else 200000)
    for n in range(0, 256):
        for device_id in (IDS if (n % 16 in (0, 1, 15) or ctx.tier == "thorough") else [rng.choice(IDS), rng.randrange(2 ** 64)]):
            one_encode(ctx, "encode", device_id, bytes(rng.randrange(256) for _ in range(n)))
    for device_id in IDS:
        for d in (-1, 1):
            if 0 <= device_id + d < 2 ** 64:
                one_encode(ctx, "encode_id_boundary", device_id + d, bytes(rng.randrange(256) for _ in range(rng.randrange(0, 60))))
    if ctx.driver:
        for n in range(0, 256):
            one_decode(ctx, "decode", rng, rng.choice(IDS + [rng.randrange(2 ** 64)]),
                       bytes(rng.randrange(256) for _ in range(n)))
    for _ in range(300 if ctx.tier == "quick" else 20000):
        n = rng.choice([rng.randrange(0, 256), rng.randrange(0, 2000)])
        one_encode(ctx, "random", rng.randrange(2 ** 64), bytes(rng.randrange(256) for _ in range(n)))
        if ctx.driver:
            one_decode(ctx, "random_decode", rng, rng.randrange(2 ** 64), bytes(rng.randrange(256) for _ in range(n)))
    overflow(ctx, rng)


def search(ctx):
    run(ctx)


def replay(ctx, case):
    inp = case["input"]
    frame = bytes.fromhex(inp["frame"]) if inp["frame"] != "-" else b""
    out, ts = lanimpl.v2_encode(inp["id"], frame)
    print("impl encode:", out)
    if ctx.driver and not out.startswith("err"):
        print("spec decode:", ctx.driver.ask(f"spec_v2_decode data={out}"))
    if "packet" in inp:
        print("impl decode:", lanimpl.v2_decode(bytes.fromhex(inp["packet"])))
    return 0
