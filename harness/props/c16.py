"""C16 — property-protocol settings: sent once, correctly encoded, read back equal."""
import acgen
import devrun
import respgen
from common import hx
from msmart.device.AC import command as C
from msmart.device.AC.device import AirConditioner as AC

P = C.PropertyId
# capability profiles: property ids the device implements -> capability records that advertise them
CAP_FOR = {int(P.SWING_UD_ANGLE): (0x0009, 1), int(P.SWING_LR_ANGLE): (0x000A, 1), int(P.SELF_CLEAN): (0x0039, 1),
           int(P.BREEZE_CONTROL): (0x0043, 1), int(P.BREEZE_AWAY): (0x0042, 1), int(P.BREEZELESS): (0x0018, 1),
           int(P.IECO): (0x00E3, 1)}
PROFILES = {
    "breeze_control+5rate+ieco+angles": [0x43, 0x48, 0xE3, 0x09, 0x0A, 0x39],
    "legacy_away+breezeless+2rate": [0x42, 0x18, 0x48, 0x39],
    "legacy_away_only+angles": [0x42, 0x09, 0x0A],
    "legacy_breezeless_only+ieco": [0x18, 0xE3],
    "rate5_only": [0x48],
    "nothing": [],
}
RATE_LEVELS = {"breeze_control+5rate+ieco+angles": 2, "legacy_away+breezeless+2rate": 1, "rate5_only": 3}
STATE_FRAME = bytes.fromhex("aa22ac00000000000303c0014566000000300010045cff2070000000000000008bed19")

SETTERS = ["breeze_away", "breeze_mild", "breezeless", "hangle", "vangle", "ieco", "rate"]


class PropDevice:
    """reactive device at the frame level; every byte-level decision of the property protocol is
    delegated to Spec.PropertyStore through the driver"""

    def __init__(self, ctx, profile_name):
        self.ctx = ctx
        self.name = profile_name
        self.profile = PROFILES[profile_name]
        self.store = ctx.driver.ask("store_new profile=" + "+".join(str(p) for p in self.profile))
        self.writes = []      # (list of (id, value bytes)) per 0xB0 frame received
        self.reads = []

    def caps_frame(self):
        recs = []
        for p in self.profile:
            if p == 0x48:
                recs.append((0x0048, bytes([RATE_LEVELS[self.name]])))
            else:
                cid, v = CAP_FOR[p]
                recs.append((cid, bytes([v])))
        return respgen.make_frame(respgen.caps_body(recs, trailer=b"\x00\x00"))

    def vals(self):
        d = {}
        for kv in self.store.split(" vals=")[1].split(";"):
            if kv:
                k, v = kv.split(":")
                d[int(k)] = bytes.fromhex(v) if v != "-" else b""
        return d

    def __call__(self, frame):
        body = frame[10:-3]
        msgid = frame[-3]
        if body[0] == 0x41:
            return [STATE_FRAME]
        if body[0] == 0x40:
            return [STATE_FRAME]
        if body[0] == 0xB5:
            return [self.caps_frame()]
        if body[0] in (0xB0, 0xB1):
            rep = self.ctx.driver.ask(f"store_step {self.store} body={hx(body)}")
            self.store, resp = rep.rsplit(" resp=", 1)
            if body[0] == 0xB0:
                recs = []
                p = body[2:]
                for _ in range(body[1]):
                    n = p[2]
                    recs.append((int.from_bytes(p[0:2], "little"), bytes(p[3:3 + n])))
                    p = p[3 + n:]
                self.writes.append(recs)
            else:
                self.reads.append([int.from_bytes(body[2 + 2 * i:4 + 2 * i], "little") for i in range(body[1])])
            if resp == "none":
                return []
            payload = bytes.fromhex(resp) + bytes([msgid])
            return [respgen.make_frame(payload, frame_type=frame[9])]
        return []


def expected_id(setter, known):
    """property id a setter change must be sent under, given what the device advertised"""
    if setter in ("breeze_away", "breezeless"):
        if 0x43 in known:
            return 0x43
        return 0x42 if setter == "breeze_away" else 0x18
    return {"breeze_mild": 0x43, "hangle": 0x0A, "vangle": 0x09, "ieco": 0xE3, "rate": 0x48}[setter]


def expected_value(pid, dev):
    """vendor WRITE encoding of the current setting for a property id (read through the public attributes)"""
    bm = 2 if dev.breeze_away else 3 if dev.breeze_mild else 4 if dev.breezeless else 1
    if pid == 0x42:
        return bytes([2 if bm == 2 else 1])
    if pid == 0x43:
        return bytes([bm])
    if pid == 0x18:
        return bytes([1 if bm == 4 else 0])
    if pid == 0xE3:
        return bytes([0, 1, 1 if dev.ieco else 0]) + bytes(10)
    if pid == 0x48:
        return bytes([int(dev.rate_select)])
    if pid == 0x0A:
        return bytes([int(dev.horizontal_swing_angle)])
    if pid == 0x09:
        return bytes([int(dev.vertical_swing_angle)])
    if pid == 0x1A:
        return bytes([1 if dev.beep else 0])
    raise KeyError(pid)


def gen_history(rng, profile_name, length):
    ops = []
    if rng.random() < 0.8:
        ops.append(("op", "getcaps", None))
    rates = {2: [100, 80, 60, 40, 20, 1], 1: [100, 75, 50], 3: [100, 80, 60, 40, 20, 1]}.get(RATE_LEVELS.get(profile_name, 0), [100, 50])
    for _ in range(length):
        r = rng.random()
        if r < 0.5:
            s = rng.choice(SETTERS)
            if s in ("breeze_away", "breeze_mild", "breezeless", "ieco"):
                v = str(rng.randrange(2))
            elif s == "rate":
                v = str(rng.choice(rates))
            else:
                v = str(rng.choice([0, 1, 25, 50, 75, 100]))
            ops.append(("set", s, v))
        elif r < 0.75:
            ops.append(("op", "apply", None))
        elif r < 0.88:
            ops.append(("op", "refresh", None))
        elif r < 0.95:
            ops.append(("op", "selfclean", None))
        else:
            ops.append(("op", "getcaps", None))
    ops.append(("op", "apply", None))
    ops.append(("op", "refresh", None))
    return ops


def run_history(ctx, stream, profile_name, ops, beep):
    """drives the real object step by step so the oracle can look at the device after each op"""
    devsim = PropDevice(ctx, profile_name)
    cfg = [("beep", str(int(beep)))]
    # the oracle needs intermediate observations: run prefixes incrementally on ONE object
    changed = set()
    known = set()
    inp = {"profile": profile_name, "ops": [o[:2] + ((o[2],) if o[0] == "set" else ()) for o in ops]}
    resolved = []
    st, failed, state, sent, dev = devrun.run_impl(cfg, 0, [], responder=devsim)
    # (single run for correspondence)
    devsim = PropDevice(ctx, profile_name)
    st, failed, state, sent, dev = devrun.compare(ctx, stream, cfg, 0, ops, responder=devsim)
    inp["line"] = devrun.line_for(cfg, 0, ops) if False else None
    if st != "ok":
        ctx.violate(stream, inp, st, "ok", "history raised")
        return
    # replay for the oracle with per-op inspection
    devsim = PropDevice(ctx, profile_name)
    last_set = {}
    prev_dev = devrun.run_impl(cfg, 0, [], responder=PropDevice(ctx, profile_name))[4]
    for i, op in enumerate(ops):
        nwrites = len(devsim.writes)
        st, failed, state, sent, dev = devrun.run_impl(cfg, 0, ops[:i + 1], responder=(d2 := PropDevice(ctx, profile_name)))
        if op[0] == "set":
            changed.add(expected_id(op[1], known))
            last_set[op[1]] = op[2]
        elif op[1] == "getcaps":
            known = set(d2.profile)
        elif op[1] == "apply":
            writes = d2.writes
            prev = run_history.prev_writes
            new = writes[len(prev):] if prev is not None else writes
            # writes of THIS apply = those beyond the ones of the previous prefix
            mine = writes[run_history.nwrites_before:]
            if not changed:
                if mine:
                    ctx.violate(stream, {**inp, "at": i}, {"writes": [[(a, hx(b)) for a, b in w] for w in mine]}, "no 0xB0 write",
                                "apply with no changed property sent a property write")
            else:
                want_ids = sorted(changed | {0x1A})
                if len(mine) != 1 or sorted(a for a, _ in mine[0]) != want_ids:
                    ctx.violate(stream, {**inp, "at": i}, {"writes": [[(a, hx(b)) for a, b in w] for w in mine]},
                                {"ids": want_ids}, "property write does not carry exactly the changed ids (+buzzer), once")
                else:
                    for pid, val in mine[0]:
                        want = expected_value(pid, prev_dev)
                        if val != want:
                            ctx.violate(stream, {**inp, "at": i}, {"id": pid, "value": hx(val)}, {"value": hx(want)},
                                        "property value not in the vendor encoding")
            changed = set()
        elif op[1] == "selfclean":
            mine = d2.writes[run_history.nwrites_before:]
            ok = (len(mine) == 1 and sorted(a for a, _ in mine[0]) == [0x1A, 0x39]
                  and dict(mine[0])[0x39] == b"\x01")
            if not ok:
                ctx.violate(stream, {**inp, "at": i}, {"writes": [[(a, hx(b)) for a, b in w] for w in mine]},
                            {"ids": [0x1A, 0x39], "self_clean": "01"}, "start_self_clean did not send exactly the self-clean write (+buzzer)")
            # pending changes of other settings are untouched: `changed` stays as it is
        elif op[1] == "refresh" and known:
            # read back: every setting whose id the device implements equals what the device holds
            vals = d2.vals()
            exp = {}
            if 0x43 in d2.profile and 0x43 in known:
                bm = vals[0x43][0]
                exp.update(breeze_away=(bm == 2), breeze_mild=(bm == 3), breezeless=(bm == 4))
            else:
                if 0x42 in known and 0x42 in d2.profile:
                    exp["breeze_away"] = vals[0x42] == b"\x02"
                if 0x18 in known and 0x18 in d2.profile:
                    exp["breezeless"] = vals[0x18] != b"\x00"
            if 0x0A in known:
                exp["horizontal_swing_angle"] = vals[0x0A][0]
            if 0x09 in known:
                exp["vertical_swing_angle"] = vals[0x09][0]
            if 0x48 in known:
                exp["rate_select"] = vals[0x48][0]
            if 0xE3 in known:
                exp["ieco"] = vals[0xE3][1] != 0
            got = {k: (int(getattr(dev, k)) if not isinstance(getattr(dev, k), bool) else getattr(dev, k)) for k in exp}
            exp = {k: (int(v) if not isinstance(v, bool) else v) for k, v in exp.items()}
            if got != exp:
                ctx.violate(stream, {**inp, "at": i}, {k: got[k] for k in got if got[k] != exp[k]},
                            {k: exp[k] for k in got if got[k] != exp[k]},
                            "setting not read back equal to what the device holds after refresh")
        if sum([bool(dev.breeze_away), bool(dev.breeze_mild), bool(dev.breezeless)]) > 1:
            ctx.violate(stream, {**inp, "at": i}, "several breeze modes", "at most one", "more than one breeze mode active")
        run_history.nwrites_before = len(d2.writes)
        run_history.prev_writes = None
        prev_dev = dev
    ctx.count(f"{stream}:{profile_name}")
    ctx.case(stream, key=(profile_name, tuple(map(str, ops))), sample={"profile": profile_name,
             "ops": [o[1] + (":" + o[2] if o[0] == "set" else "") for o in ops]})


run_history.nwrites_before = 0
run_history.prev_writes = None


def twins(ctx, rng, n):
    """two or three device objects of different capability profiles living in one process, their histories interleaved:
    each ends in the state, and each simulated unit has received the property writes, of the same history run alone"""
    names = list(PROFILES)
    for _ in range(n):
        k = rng.choice([2, 2, 3])
        profs = [rng.choice(names) for _ in range(k)]
        hists = [gen_history(rng, p_, rng.randrange(2, 8)) for p_ in profs]
        beeps = [rng.random() < 0.5 for _ in range(k)]
        alone = []
        for p_, h, b in zip(profs, hists, beeps):
            sim = PropDevice(ctx, p_)
            (st, state), = devrun.run_twins(rng, [([("beep", str(int(b)))], h, sim)])
            alone.append((st, state, [sorted((a, hx(v)) for a, v in w) for w in sim.writes]))
        sims = [PropDevice(ctx, p_) for p_ in profs]
        together = devrun.run_twins(rng, [([("beep", str(int(b)))], h, sim) for h, b, sim in zip(hists, beeps, sims)])
        inp = {"profiles": profs, "histories": [[o[1] + (":" + o[2] if o[0] == "set" else "") for o in h] for h in hists]}
        for j in range(k):
            got = (together[j][0], together[j][1], [sorted((a, hx(v)) for a, v in w) for w in sims[j].writes])
            if got != alone[j]:
                diff = "state" if got[1] != alone[j][1] else "writes" if got[2] != alone[j][2] else "status"
                ctx.violate("twins", {**inp, "object": j}, {"status": got[0], "writes": got[2][:4], "state": got[1][:200]},
                            {"status": alone[j][0], "writes": alone[j][2][:4], "state": alone[j][1][:200]},
                            f"a device object behaves differently ({diff}) when another object is used in the same process")
                break
        ctx.case("twins", key=str(inp), sample={"profiles": profs})


def run(ctx):
    rng = ctx.rng
    if not ctx.driver:
        return
    twins(ctx, rng, 20 if ctx.tier == "quick" else 400)
    n = 25 if ctx.tier == "quick" else 400
    maxlen = 8 if ctx.tier == "quick" else 25
    for name in PROFILES:
        for _ in range(n):
            run_history.nwrites_before = 0
            ops = gen_history(rng, name, rng.randrange(1, maxlen + 1))
            run_history(ctx, "histories", name, ops, beep=rng.random() < 0.5)
    # every enum value of every setting, on the profile that implements it: set, apply, refresh
    full = "breeze_control+5rate+ieco+angles"
    # a self-clean between a change and its apply must not swallow the change
    for setter, v in [("hangle", 50), ("vangle", 25), ("rate", 50), ("ieco", 1), ("breeze_away", 1), ("breezeless", 1)]:
        for prof in PROFILES:
            for ops in ([("op", "getcaps", None), ("set", setter, str(v)), ("op", "selfclean", None), ("op", "apply", None), ("op", "refresh", None)],
                        [("set", setter, str(v)), ("op", "selfclean", None), ("op", "selfclean", None), ("op", "apply", None), ("op", "apply", None)]):
                run_history.nwrites_before = 0
                run_history(ctx, "selfclean_between", prof, ops, beep=rng.random() < 0.5)
    for setter, values in [("hangle", [0, 1, 25, 50, 75, 100]), ("vangle", [0, 1, 25, 50, 75, 100]),
                           ("rate", [100, 80, 60, 40, 20, 1]), ("ieco", [0, 1]), ("breeze_away", [0, 1]),
                           ("breeze_mild", [0, 1]), ("breezeless", [0, 1])]:
        for v in values:
            for prof in PROFILES:
                run_history.nwrites_before = 0
                ops = [("op", "getcaps", None), ("set", setter, str(v)), ("op", "apply", None), ("op", "refresh", None),
                       ("op", "apply", None)]
                run_history(ctx, "each_value", prof, ops, beep=False)


def search(ctx):
    run(ctx)


def replay(ctx, case):
    print(case.get("what"), case.get("input"))
    print("observed:", case.get("observed"), "expected:", case.get("expected"))
    return 0
