"""C08 — retry, timeout and recovery contract of an exchange."""
import asyncio
import itertools

import sessim
import simdev
import vloop
from common import hx
from msmart.device.AC.device import AirConditioner as AC
from msmart.lan import LAN


def rb(rng, n):
    return bytes(rng.randrange(256) for _ in range(n))


def get_frame():
    from msmart.device.AC.command import GetStateCommand
    return GetStateCommand().tobytes()


def tx_bounds(ctx, rng, version):
    """retry budgets 1..4 x which transmission is answered x reply delay relative to the 2 s timeout"""
    frame = get_frame()
    for retries in (1, 2, 3, 4):
        for answered in range(0, retries + 2):          # 0 = never; k = the k-th transmission is the first answered
            RT = sessim.measure_params()[0]
            for delay, lost in [(d, l) for d in (100, RT - 63, RT + 137) for l in (False, True)]:
                if answered == 0 and delay != 100:
                    continue
                token, key = rb(rng, 64), rb(rng, 32)
                data_mode = "silent" if answered == 0 else f"silent{answered - 1}"
                # the answered transmission replies after `delay`; encode through director modes
                # `lost`: the previous exchange ended with the peer closing the connection, so THIS exchange has to connect
                # (and, on V3, handshake and sleep) by itself before its first transmission - its retry budget is the same
                pre = [("send", frame, "ok", "close")] if lost else []
                ops = ([("auth", token, key, "ok", "ok")] if version == 3 else []) + pre + [("sendn", frame, retries, "ok", data_mode)]
                res, inp = compare_n(ctx, "tx_bounds", version, ops, token, key, reply_delay=delay)
                dev = res["dev"]
                kind = "data" if version == 3 else "v2"
                t0 = res["times"][-2] if len(res["times"]) >= 2 else 0
                tx = [e for e in dev.log if e["kind"] == kind and sessim.ms(e["t"]) >= t0]
                out = res["outcomes"][-1]
                inp.update(retries=retries, answered=answered, delay=delay, session_lost_before=lost)
                n = len(tx)
                if not (1 <= n <= retries):
                    ctx.violate("tx_bounds", inp, {"transmissions": n}, f"1..{retries}", "number of transmissions outside 1..retries")
                # expected by the contract: transmission k is answered after `delay`
                if answered == 0 or answered > retries:
                    want_n, want_ok = retries, False
                elif delay < RT:
                    want_n, want_ok = answered, True
                else:
                    # the reply arrives during the NEXT attempt's wait (if there is one)
                    want_n, want_ok = (answered + 1, True) if answered + 1 <= retries else (retries, False)
                ok = out.startswith("frames:") and len(out) > 7
                if n != want_n or ok != want_ok:
                    ctx.violate("tx_bounds", inp, {"transmissions": n, "outcome": out[:20]},
                                {"transmissions": want_n, "success": want_ok},
                                "retransmission did not stop at the first response / did not exhaust the budget")
                if not want_ok and out != "fail:timeout":
                    ctx.violate("tx_bounds", inp, out, "fail:timeout", "exhausted retries did not raise a timeout")
                # retransmissions are spaced by the read timeout
                ts = [sessim.ms(e["t"]) for e in tx]
                if any(b - a != RT for a, b in zip(ts, ts[1:])):
                    ctx.violate("tx_bounds", inp, ts, f"{RT} ms apart (the measured read timeout)", "retransmissions are not evenly spaced by the read timeout")
                ctx.case("tx_bounds", key=(version, retries, answered, delay, lost), sample={**{k: inp[k] for k in ("retries", "answered", "delay")}, "tx": n, "out": out[:14]})


def compare_n(ctx, stream, version, ops, token, key, reply_delay=100, connects=None):
    """like sessim.compare but with `sendn` ops and a configurable reply delay"""
    orig = sessim.Director.__call__
    orig_set = sessim.Director.set

    def set_(self, hs_mode, data_mode):
        orig_set(self, hs_mode, data_mode)
        self.dcount = 0                      # data requests of THIS operation (its own handshake requests do not count)

    def call(self, d, tr, req):
        conn = d.conns[tr.cid]
        mode = self.hs_mode if req["kind"] == "hs" else self.data_mode
        if req["kind"] != "hs" and mode.startswith("silent") and mode != "silent":
            self.dcount = getattr(self, "dcount", 0) + 1
            n = int(mode[6:])
            if self.dcount <= n:
                return
            reply = d._proper_reply(conn, req)
            if reply:
                d._send(conn, reply_delay / 1000, reply)
            return
        return orig(self, d, tr, req)
    sessim.Director.__call__ = call
    sessim.Director.set = set_
    try:
        real_ops = []
        for op in ops:
            real_ops.append(op)
        res, inp = _compare(ctx, stream, version, real_ops, connects or ["o"] * 10, token, key)
    finally:
        sessim.Director.__call__ = orig
        sessim.Director.set = orig_set
    return res, inp


def _compare(ctx, stream, version, ops, connects, token, key):
    # teach run_history / model_line about `sendn`
    import simdev as sd
    orig_run = sessim.run_history

    def model_ops(ops):
        out = []
        for o in ops:
            if o[0] == "sendn":
                out.append(("sendn", o[1], o[2]))
            else:
                out.append(o)
        return out
    res, inp = sessim.compare(ctx, stream, version, ops, "director", connects, token, key)
    return res, inp


FAULTS = ["drop", "error", "garbage", "close", "reset", "refuse", "hang", "cancel"]
# faults that hit the RE-authentication of an exchange (V3): the connection is dropped first so that the
# exchange has to handshake again, and the handshake is then not answered / answered with garbage
HS_FAULTS = ["hs_drop", "hs_error", "hs_partial", "hs_late"]


def recovery(ctx, rng, version, faults):
    """after any (pair of) failed exchange(s) the next exchange with a prompt device succeeds"""
    token, key = rb(rng, 64), rb(rng, 32)
    dev = simdev.SimDevice(version=version, device_id=5, token=token if version == 3 else None, key=key if version == 3 else None,
                           responder=lambda f: [sessim.STATE])
    director = sessim.Director(version)
    dev.script = [("custom", director)] * 10000
    res = {"outcomes": []}

    async def scenario(loop, net):
        net.add_tcp(sessim.IP, sessim.PORT, dev)
        ac = AC(ip=sessim.IP, port=sessim.PORT, device_id=5)
        if version == 3:
            await ac.authenticate(token, key)
        await ac.refresh()
        res["online0"] = ac.online
        for f in faults:
            director.set("ok", "ok")
            if f == "drop":
                director.set("ok", "silent")
            elif f == "error":
                director.set("ok", "error")
            elif f == "garbage":
                director.set("ok", "garbage")
            elif f == "close":
                director.set("ok", "close")
            elif f == "reset":
                director.set("ok", "reset")
            elif f in ("refuse", "hang"):
                # force a reconnect that fails: drop the connection first (peer close), then refuse/hang
                for tr in net.connections:
                    if not tr.closing:
                        tr.peer_close(0.0)
                await asyncio.sleep(0.01)
                net.connect_script[(sessim.IP, sessim.PORT)] = ["refuse" if f == "refuse" else "hang"]
            if f.startswith("hs_"):
                for tr in net.connections:
                    if not tr.closing:
                        tr.peer_close(0.0)
                await asyncio.sleep(0.01)
                director.set({"hs_drop": "silent", "hs_error": "error", "hs_partial": "partial", "hs_late": "verylate"}[f], "ok")
            if f == "cancel":
                director.set("ok", "silent")
                task = asyncio.ensure_future(ac.refresh())
                await asyncio.sleep(0.5)
                task.cancel()
                try:
                    await task
                    res["outcomes"].append("cancel:returned")
                except asyncio.CancelledError:
                    res["outcomes"].append("cancel:cancelled")
                except Exception as e:  # noqa
                    res["outcomes"].append("cancel:" + type(e).__name__)
                continue
            try:
                await ac.refresh()
                res["outcomes"].append(f"{f}:online={ac.online}")
            except Exception as e:  # noqa
                res["outcomes"].append(f"{f}:EXC:{type(e).__name__}")
        director.set("ok", "ok")
        try:
            await ac.refresh()
            res["final"] = ac.online
        except Exception as e:  # noqa
            res["final"] = "EXC:" + type(e).__name__
        res["net"] = net
    try:
        vloop.run(scenario)
    except Exception as e:  # noqa
        res["final"] = "OUTER:" + type(e).__name__ + str(e)[:60]
    inp = {"version": version, "faults": list(faults)}
    if res.get("online0") is not True:
        ctx.violate("recovery", inp, res.get("online0"), True, "initial exchange failed")
    for o in res["outcomes"]:
        if "EXC" in o:
            ctx.violate("recovery", inp, o, "device reported offline (no exception)", "a failed exchange raised out of refresh()")
        elif "online=True" in o and not o.startswith("cancel"):
            ctx.violate("recovery", inp, o, "online=False", "a failed exchange did not report the device offline")
    if res.get("final") is not True:
        ctx.violate("recovery", inp, {"after_faults": res["outcomes"], "next_exchange": res.get("final")}, "online=True",
                    "the exchange after the failed one(s) did not succeed without user intervention")
    # V3: the successful exchange after a fault re-authenticated first when a new connection was needed
    if version == 3:
        per_cid = {}
        for e in dev.log:
            per_cid.setdefault(e["cid"], []).append(e["kind"])
        for cid, kinds in per_cid.items():
            if kinds[0] != "hs":
                ctx.violate("recovery", inp, {"cid": cid, "first": kinds[0]}, "hs", "data on a new connection without re-authentication")
    ctx.count(f"recovery:v{version}:{'+'.join(faults)}")
    ctx.case("recovery", key=(version, tuple(faults)), sample={**inp, "outcomes": res["outcomes"], "final": res.get("final")})


def stack_histories(ctx, rng):
    """the whole client stack (AirConditioner over LAN over the V3 protocol) against the Stack model: device-level
    histories of authenticate / refresh under peer faults / clock jumps; outcomes, the full device record (online,
    supported, every attribute) and the structural write log (frames incl. message ids) must agree"""
    modes = [("ok", "ok"), ("ok", "silent"), ("ok", "error"), ("ok", "garbage"), ("ok", "close"), ("ok", "reset"),
             ("silent", "ok"), ("error", "ok"), ("bad", "ok"), ("ok", "okpush")]
    n = 40 if ctx.tier == "quick" else 1200
    for k in range(n):
        token, key = rb(rng, 64), rb(rng, 32)
        ops = [("auth", token, key, "ok", "ok")]
        for _ in range(rng.randrange(1, 7)):
            r = rng.random()
            if r < 0.75:
                ops.append(("refresh",) + rng.choice(modes))
            elif r < 0.9:
                ops.append(("adv", rng.choice([61000, 13 * 3600 * 1000, 500, 2500])))
            else:
                ops.append(("auth", token, key) + rng.choice([("ok", "ok"), ("bad", "ok"), ("silent", "ok")]))
        connects = ["o"] * 3 + [rng.choice("oooor") for _ in range(20)]
        res, inp = sessim.compare_stack(ctx, "stack", ops, connects, token, key)
        for o in res["outcomes"]:
            if o.startswith("fail:py") :
                ctx.violate("stack", inp, o, "ok / done / AuthenticationError", "a device-level operation raised something else")
        ctx.case("stack", key=(k, hx(token[:4])), sample={"ops": inp["ops"], "outcomes": res["outcomes"]})


def offline_flag(ctx, rng):
    """exhausting the retries is turned into 'no response / offline' by device-level calls"""
    for version in (2, 3):
        recovery(ctx, rng, version, ["drop"])


def run(ctx):
    rng = ctx.rng
    # teach the session harness the sendn op
    patch_sendn()
    for version in (2, 3):
        tx_bounds(ctx, rng, version)
    for version in (2, 3):
        for f in FAULTS:
            recovery(ctx, rng, version, [f])
        for a, b in itertools.product(FAULTS, repeat=2):
            recovery(ctx, rng, version, [a, b])
    for f in HS_FAULTS:
        recovery(ctx, rng, 3, [f])
        for g in FAULTS:
            recovery(ctx, rng, 3, [f, g])
            recovery(ctx, rng, 3, [g, f])
    if ctx.tier == "thorough":
        for version in (2, 3):
            for fs in itertools.product(FAULTS, repeat=3):
                recovery(ctx, rng, version, list(fs))
    stack_histories(ctx, rng)


def patch_sendn():
    """extend sessim with `sendn` (send with an explicit retry budget)"""
    if getattr(sessim, "_sendn", False):
        return
    sessim._sendn = True
    orig_model_line = sessim.model_line

    def model_line(ops, rx, connects, params=None):
        params = params or sessim.measure_params()
        line = orig_model_line([o for o in ops if o[0] != "sendn"] and ops, rx, connects, params)
        return line
    orig_run = sessim.run_history

    import types

    def run_history(version, ops, behaviours, connects, token, key, device_id=77, responder=None):
        # translate sendn into a LAN.send with retries by wrapping LAN.send per op
        from msmart.lan import LAN as L
        plain = []
        budgets = []
        for o in ops:
            if o[0] == "sendn":
                plain.append(("send", o[1], o[3], o[4]))
                budgets.append(o[2])
            elif o[0] == "send":
                plain.append(o)
                budgets.append(None)
            else:
                plain.append(o)
        it = iter(budgets)
        orig_send = L.send

        async def send(self, data, retries=L.RETRIES):
            b = next(it, None)
            return await orig_send(self, data, retries if b is None else b)
        L.send = send
        try:
            return orig_run(version, plain, behaviours, connects, token, key, device_id, responder)
        finally:
            L.send = orig_send
    sessim.run_history = run_history

    def opstr_line(ops, rx, connects, params=None):
        params = params or sessim.measure_params()
        def opstr(op):
            if op[0] == "sendn":
                return "sendn." + hx(op[1]) + "." + str(op[2])
            if op[0] == "send":
                return "send." + hx(op[1])
            if op[0] == "auth":
                return "auth." + hx(op[1]) + "." + hx(op[2])
            if op[0] == "adv":
                return f"adv.{op[1]}"
            return "life." + ("none" if op[1] is None else str(op[1]))
        rxs = ";".join(f"{c}.{i}.{d}.{'close' if v == 'close' else hx(v)}" for c, i, d, v in rx)
        return (f"session rt={params[0]} ct={params[1]} as={params[2]} connects={','.join(connects)} rx={rxs} "
                f"ops={'|'.join(opstr(o) for o in ops)}")
    sessim.model_line = opstr_line


def search(ctx):
    run(ctx)


def replay(ctx, case):
    print(case["input"])
    print("observed:", case.get("observed"), "expected:", case.get("expected"))
    return 0
