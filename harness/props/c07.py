"""C07 — V3 session discipline: no data before handshake, right key, bounded counter; expiry."""
import itertools

import sessim
from common import hx


def rb(rng, n):
    return bytes(rng.randrange(256) for _ in range(n))


def get_frame():
    from msmart.device.AC.command import GetStateCommand
    return GetStateCommand().tobytes()


def steps(token, key, frame, bad_token, bad_key):
    RT = sessim.measure_params()[0]
    return {
        "send": ("send", frame, "ok", "ok"),
        "send_silent": ("send", frame, "ok", "silent"),
        "send_error": ("send", frame, "ok", "error"),
        "send_close": ("send", frame, "ok", "close"),
        "send_garbage": ("send", frame, "ok", "garbage"),
        "send_hs_silent": ("send", frame, "silent", "ok"),
        "send_hs_error": ("send", frame, "error", "ok"),
        "send_hs_bad": ("send", frame, "bad", "ok"),          # handshake reply made with another key
        "send_hs_garbage": ("send", frame, "garbage", "ok"),
        "send_reset": ("send", frame, "ok", "reset"),
        "send_push": ("send", frame, "ok", "okpush"),         # + an unsolicited frame pushed afterwards         # peer RST: connection_lost(exc)
        "auth_reply_bad": ("auth", token, key, "bad", "ok"),
        "auth_good": ("auth", token, key, "ok", "ok"),
        "auth_bad": ("auth", bad_token, bad_key, "ok", "ok"),
        "auth_silent": ("auth", token, key, "silent", "ok"),
        # cancellation by the caller while the call waits in a read (times chosen inside read waits in every
        # situation the history can be in; the post-authentication sleep is not a modelled cancellation point)
        "send_cancel_1": ("sendc", frame, RT * 3 // 4, "ok", "silent"),
        "send_cancel_2": ("sendc", frame, RT * 7 // 4, "ok", "silent"),
        "send_cancel_hs": ("sendc", frame, 50, "silent", "ok"),
        "auth_cancel": ("authc", token, key, RT * 5 // 4, "silent", "ok"),
        # cancelled while the handshake reply is ON ITS WAY: the genuine reply arrives after the caller gave up and is
        # still queued when the next exchange handshakes again on the same connection
        "send_hs_late": ("send", frame, "late", "ok"),       # every handshake reply of this operation arrives 137 ms after its read timed out
        "auth_late": ("auth", token, key, "late", "ok"),
        "send_cancel_hs_late": ("sendc", frame, 30, "ok", "ok"),
        "auth_cancel_late": ("authc", token, key, 30, "ok", "ok"),
        "clock_13h": ("adv", 13 * 3600 * 1000),
        "clock_12h1s": ("adv", 12 * 3600 * 1000 + 1000),
        "clock_25h": ("adv", 25 * 3600 * 1000),
        "clock_49h": ("adv", 49 * 3600 * 1000 + 7000),
        "clock_8d": ("adv", 8 * 24 * 3600 * 1000 + 3 * 3600 * 1000),
        "clock_life": ("adv", 61 * 1000),
        "clock_1s": ("adv", 1000),
        "clock_7h": ("adv", 7 * 3600 * 1000),          # two of them exceed the 12 h authentication lifetime, one does not
    }


def device_oracle(ctx, stream, inp, res):
    """the invariants of the property evaluated on what the DEVICE saw, with the device's own keys"""
    dev = res["dev"]
    per_cid = {}
    for e in dev.log:
        per_cid.setdefault(e["cid"], []).append(e)
    for cid, entries in per_cid.items():
        prev = None
        for k, e in enumerate(entries):
            if e["kind"] == "data":
                if not e.get("tag_ok"):
                    mech = None
                    if e.get("verifies_under_handshake") is not None and e.get("stale_reply_in_flight"):
                        # the unit's own records: the packet IS encrypted under the key of an earlier handshake of this
                        # connection, whose reply was still in flight when the next handshake request was written
                        mech = "late-handshake-reply"
                    ctx.violate(stream, inp, {"cid": cid, "index": k, "error": e.get("error"), "mechanism": mech,
                                              "verifies_under_handshake": e.get("verifies_under_handshake")},
                                "data encrypted under the session key of the latest handshake on its connection",
                                "data packet written before a successful handshake on that connection or under a stale key")
            elif e["kind"] != "hs":
                ctx.violate(stream, inp, {"cid": cid, "index": k, "kind": e["kind"]}, "hs or data",
                            "something else than a handshake request / encrypted request was written to a V3 connection")
            ctr = e.get("counter")
            if ctr is not None:
                want = 0 if prev is None else (prev + 1) % 4096
                if ctr != want:
                    ctx.violate(stream, inp, {"cid": cid, "index": k, "counter": ctr}, {"counter": want},
                                "packet counter is not the previous one plus one (mod 4096, starting at 0)")
                prev = ctr
        if entries[0]["kind"] != "hs":
            ctx.violate(stream, inp, {"cid": cid, "first": entries[0]["kind"]}, "hs",
                        "first thing written to a connection is not a handshake request")


KNOWN = {
    "D13-late-handshake-reply": lambda v: isinstance(v.get("observed"), dict) and v["observed"].get("mechanism") == "late-handshake-reply",
}


def expiry_oracle(ctx, stream, inp, res, ops):
    dev = res["dev"]
    times = res["times"]
    # whatever the history: a data packet is never written more than 12 h (+ the few seconds a handshake can take) after the
    # latest handshake request on its connection - the lifetime runs from the handshake, not from the last traffic
    last_hs = {}
    for e in dev.log:
        t = sessim.ms(e["t"])
        if e["kind"] == "hs":
            last_hs[e["cid"]] = t
        elif e["kind"] == "data" and e["cid"] in last_hs and t - last_hs[e["cid"]] > 12 * 3600 * 1000 + 10000:
            ctx.violate(stream, inp, {"cid": e["cid"], "data_at_ms": t, "latest_handshake_at_ms": last_hs[e["cid"]]},
                        "a handshake within the last 12 h on that connection",
                        "a data packet was written more than 12 h after the latest handshake on its connection")
            break
    for i, op in enumerate(ops):
        if op[0] != "adv":
            continue
        lifetime_active = any(o[0] == "life" and o[1] for o in ops[:i])
        if not (op[1] >= 12 * 3600 * 1000 or (lifetime_active and op[1] >= 60000)):
            continue            # a short pause: nothing has expired
        t_after = times[i]
        later = [e for e in dev.log if sessim.ms(e["t"]) >= t_after]
        before = [e for e in dev.log if sessim.ms(e["t"]) < t_after]
        if not later:
            continue
        nxt = later[0]
        lifetime_active = any(o[0] == "life" and o[1] for o in ops[:i])
        if op[1] >= 12 * 3600 * 1000 or lifetime_active:
            if nxt["kind"] != "hs":
                ctx.violate(stream, {**inp, "at_op": i}, {"next": nxt["kind"], "cid": nxt["cid"]}, "hs",
                            "after the authentication / connection lifetime elapsed the next exchange did not begin with a handshake")
            if lifetime_active and before and nxt["cid"] == before[-1]["cid"] and op[1] >= 60000:
                ctx.violate(stream, {**inp, "at_op": i}, {"cid": nxt["cid"]}, "a new connection",
                            "connection lifetime elapsed but the next exchange reused the connection")


def token_oracle(ctx, stream, inp, res, ops):
    """every handshake request carries the configured token: the one given to the explicit authenticate that
    writes it, or - for a handshake written by a send - the one of the last authenticate that SUCCEEDED"""
    times = res["times"]
    outcomes = res["outcomes"]
    hs = [e for e in res["dev"].log if e["kind"] == "hs"]
    for e in hs:
        t = sessim.ms(e["t"])
        i = next((k for k in range(len(times)) if t <= times[k] and (k == 0 or t >= times[k - 1])), None)
        # a write at exactly an op boundary belongs to the op that starts there
        cands = [k for k in range(len(times)) if (times[k - 1] if k else 0) <= t <= times[k]]
        want = set()
        for k in cands:
            op = ops[k]
            if op[0] in ("auth", "authc"):
                want.add(bytes(op[1]))
            elif op[0] in ("send", "sendc"):
                stored = None
                for j in range(k):
                    if ops[j][0] in ("auth", "authc") and outcomes[j] == "done":
                        stored = bytes(ops[j][1])
                if stored is not None:
                    want.add(stored)
        if want and bytes(e["token"]) not in want:
            ctx.violate(stream, {**inp, "at_ms": t}, {"token": hx(e["token"][:6])}, {"one of": sorted(hx(w[:6]) for w in want)},
                        "a handshake request does not carry the configured token")
            return


def run_one(ctx, stream, rng, names, with_life, first="auth_good"):
    """`first`: the authenticate the history starts with (it tells the object that the unit is V3) - by default a
    successful one, but it may also be answered with silence / an error / a bad reply or be cancelled"""
    token, key = rb(rng, 64), rb(rng, 32)
    bad_token, bad_key = rb(rng, 64), rb(rng, 32)
    frame = get_frame()
    table = steps(token, key, frame, bad_token, bad_key)
    ops = [table[first]]
    connects = ["o"]
    if with_life:
        ops.insert(0, ("life", 60000))
    pending_refusal = False
    for n in names:
        if n == "refused":
            pending_refusal = True
            ops.append(("send", frame, "ok", "ok"))
        else:
            ops.append(table[n])
    # connection outcomes: a 'refused' step makes the NEXT connection attempt fail once
    # (decided statically: every op may need at most one connection)
    connects = []
    for n in ["auth0"] + (["life"] if with_life else []) + names:
        connects.append("r" if n == "refused" else "o")
    connects += ["o"] * (2 * len(ops) + 4)
    res, inp = sessim.compare(ctx, stream, 3, ops, "director", connects, token, key, note=",".join(names))
    inp["history"] = names
    device_oracle(ctx, stream, inp, res)
    expiry_oracle(ctx, stream, inp, res, ops)
    token_oracle(ctx, stream, inp, res, ops)
    for o in res["outcomes"]:
        ctx.count(f"{stream}:{o.split(':')[0] if o.startswith('frames') else o}")
    ctx.case(stream, key=(tuple(names), with_life, hx(token[:4])), sample={"history": names, "lifetime": with_life,
             "outcomes": [o[:14] for o in res["outcomes"]], "writes": len(res["dev"].log)})


def long_session(ctx, rng, n):
    token, key = rb(rng, 64), rb(rng, 32)
    frame = get_frame()
    # ... and after the long run the authentication expires: the re-handshake continues the counter
    ops = ([("auth", token, key, "ok", "ok")] + [("send", frame, "ok", "ok")] * n +
           [("adv", 13 * 3600 * 1000), ("send", frame, "ok", "ok"), ("send", frame, "ok", "ok")])
    res = sessim.run_history(3, ops, "director", ["o"], token, key)
    inp = {"history": f"{n} sends on one connection, +13 h, 2 sends"}
    if not any(e["kind"] == "hs" and e["counter"] != 0 for e in res["dev"].log):
        ctx.violate("long_session", inp, "no re-handshake on the long-lived connection", "a handshake request with the running counter",
                    "the expiry after a long session did not lead to a handshake on the same connection")
    device_oracle(ctx, "long_session", inp, res)
    bad = [o for o in res["outcomes"] if not (o.startswith("frames:") or o == "done")]
    if bad:
        ctx.violate("long_session", inp, bad[:2], "all exchanges succeed", "exchange failed in a long session")
    ctx.case("long_session", key=n, sample={"packets": len(res["dev"].log),
                                            "max_counter": max(e["counter"] for e in res["dev"].log)})


def run(ctx):
    rng = ctx.rng
    thorough = ctx.tier == "thorough"
    alphabet = ["send", "send_silent", "send_error", "send_close", "send_garbage", "send_hs_silent", "auth_good", "auth_bad",
                "auth_silent", "clock_13h", "clock_life", "refused", "send_hs_bad", "send_reset", "send_push"]
    jumps = ["clock_12h1s", "clock_25h", "clock_49h", "clock_8d"]
    depth = 3 if thorough else 2
    for k in range(1, depth + 1):
        for names in itertools.product(alphabet, repeat=k):
            run_one(ctx, f"depth{k}", rng, list(names), with_life=False)
    for names in itertools.product(["send", "send_silent", "clock_life", "clock_13h", "auth_good", "refused", "send_close"], repeat=2):
        run_one(ctx, "lifetime_depth2", rng, list(names), with_life=True)
    # authentication expiry for elapsed times of every magnitude (just past 12 h, more than a day, several days)
    for j in jumps:
        for pre in (["send"], [], ["auth_good"], ["send_silent"]):
            run_one(ctx, "expiry_jumps", rng, pre + [j, "send"], with_life=False)
            run_one(ctx, "expiry_jumps", rng, pre + [j, "send", j, "send"], with_life=False)
    # a re-handshake (after the 12 h expiry, on the same connection) that FAILS must not refresh anything:
    # the following exchange has to handshake again
    hs_faults = ["send_hs_bad", "send_hs_error", "send_hs_silent", "send_hs_garbage", "auth_reply_bad", "auth_bad"]
    for j in ["clock_13h", "clock_25h"]:
        for f in hs_faults:
            for pre in ([], ["send"]):
                run_one(ctx, "rehandshake_fault", rng, pre + [j, f, "send", "send"], with_life=False)
                run_one(ctx, "rehandshake_fault", rng, pre + [j, f, j, "send"], with_life=False)
    # an explicit authenticate that FAILS on a connection whose key is still valid must not leave that key
    # in use (finding D12, fixed): the following exchange handshakes again
    for f in ["auth_reply_bad", "auth_bad", "auth_silent", "auth_cancel"]:
        for pre in ([], ["send"], ["send", "send"]):
            run_one(ctx, "reauth_fault", rng, pre + [f, "send"], with_life=False)
            run_one(ctx, "reauth_fault", rng, pre + [f, f, "send", "send"], with_life=False)
    # the very FIRST handshake of the object fails (unanswered for all retries, error packet, reply under another key,
    # cancelled): nothing but handshake requests may ever reach the unit until a handshake succeeds
    for f in ["auth_silent", "auth_reply_bad", "auth_bad", "auth_cancel"]:
        for post in (["send"], ["send", "send"], ["send_silent", "send"], ["auth_good", "send"], ["send", "auth_good", "send"],
                     ["clock_13h", "send"], ["auth_silent", "send", "auth_good", "send"]):
            run_one(ctx, "first_handshake_fails", rng, post, with_life=False, first=f)
    cancels = ["send_cancel_1", "send_cancel_2", "send_cancel_hs", "auth_cancel", "send_cancel_hs_late", "auth_cancel_late"]
    for c in cancels:
        for pre in ([], ["send"], ["send_close"], ["clock_13h"], ["auth_bad"]):
            for post in (["send"], ["send", "send"], ["auth_good", "send"]):
                run_one(ctx, "cancel", rng, pre + [c] + post, with_life=False)
    # the 12 h run from the HANDSHAKE: regular traffic must not extend them
    for h in (["send", "clock_7h", "send", "clock_7h", "send", "send"], ["clock_7h", "send", "clock_7h", "send"],
              ["send", "clock_7h", "send_push", "clock_7h", "send", "clock_7h", "send", "clock_7h", "send"],
              ["clock_7h", "send_silent", "clock_7h", "send", "send"]):
        run_one(ctx, "regular_traffic_expiry", rng, h, with_life=False)
    # a handshake reply that arrives AFTER its request was abandoned (timed out / cancelled).  When it is already queued
    # at the start of the next handshake it must be discarded (the flush at the top of authenticate); when it is still in
    # flight at that moment the library cannot tell it from the answer to the new request - known finding D13.
    for c in ["send_cancel_hs_late", "auth_cancel_late", "send_hs_late", "auth_late"]:
        for pre in ([], ["send"], ["send_close"], ["clock_13h"]):
            for gap in ([], ["clock_1s"]):
                for post in (["send"], ["send", "send"], ["auth_good", "send"]):
                    run_one(ctx, "late_handshake_reply", rng, pre + [c] + gap + post, with_life=False)
    alphabet = alphabet + jumps + cancels + ["send_hs_error", "send_hs_garbage", "auth_reply_bad", "send_hs_late", "auth_late", "clock_1s", "clock_7h", "clock_7h"]
    for _ in range(150 if not thorough else 3000):
        names = [rng.choice(alphabet) for _ in range(rng.randrange(3, 13 if not thorough else 31))]
        late = {"send_hs_late", "auth_late", "send_cancel_hs_late", "auth_cancel_late"}
        if sum(n in late for n in names) and sum(n in cancels or n in late for n in names) > 1:
            # the cancellation instants are chosen inside read waits; a late handshake reply of an earlier operation moves
            # the later waits (a cancellation could fall into the post-authentication sleep, which the model does not
            # have as a cancellation point): one late step per history, and no other cancellation with it
            first = next(n for n in names if n in late)
            seen = False
            out = []
            for n in names:
                if n == first and not seen:
                    seen = True
                    out.append(n)
                elif n in late or n in cancels:
                    out.append("send")
                else:
                    out.append(n)
            names = out
        run_one(ctx, "random", rng, names, with_life=rng.random() < 0.4)
    long_session(ctx, rng, 4300 if not thorough else 70000)


def search(ctx):
    run(ctx)


REPLAY_RERUNS = True


def replay(ctx, case):
    """re-run the recorded history on the implementation (and the model) and say whether the property fails again"""
    inp = case["input"]
    print({k: inp[k] for k in ("ops", "note") if k in inp})
    print("recorded: observed", case.get("observed"), "expected", case.get("expected"))
    names = inp.get("history")
    if case.get("stream") == "long_session" or isinstance(names, str):
        n_v = len(ctx.violations)
        long_session(ctx, ctx.rng, 4300)
        again = ctx.violations[n_v:]
        print("replayed the long session on the implementation:", ("VIOLATED again: " + str(again[0]["what"])) if again else "property held")
        return 1 if again else 0
    if not names:
        return 0
    with_life = any(str(o).startswith("life") for o in inp.get("ops", []))
    n_v, n_k = len(ctx.violations), sum(len(v) for v in ctx.known_hits.values())
    run_one(ctx, case.get("stream", "replay"), ctx.rng, list(names), with_life=with_life)
    again = ctx.violations[n_v:]
    known = sum(len(v) for v in ctx.known_hits.values()) - n_k
    if again:
        print("replayed on the implementation: VIOLATED again:", again[0]["observed"], "-", again[0]["what"])
        return 1
    print("replayed on the implementation: property held" + (f" ({known} hit(s) of a known finding)" if known else ""))
    return 0
