"""C18 — discovery: one device per host; bad responders cannot spoil the rest."""
import itertools

import discsim
from common import hx
from discsim import ascii_bytes, rb


OTHER_TYPES = [0xA1, 0xAB, 0xB0, 0xCA, 0xDB, 0xE1, 0xFA, 0xFC, 0x00, 0xFF]


def good_reply(ctx, rng, version=None, dtype=None, dev_id=None, zero_fill=False):
    # a well-formed reply of ANY appliance type is a good reply (non-AC units are reported as generic devices)
    if dtype is None:
        dtype = 0xAC if rng.random() < 0.6 else rng.choice(OTHER_TYPES + [rng.randrange(256)])
    sn = ascii_bytes(rng, 32)
    name = b"net_" + (b"%02x" % dtype) + b"_" + ascii_bytes(rng, 4)
    return discsim.spec_reply(ctx, rng, version or rng.choice([2, 3]), rng.randrange(2 ** 48) if dev_id is None else dev_id,
                              "10.1.1.1", 6444, sn, name, zero_fill=zero_fill)


def bad_reply(ctx, rng, kind):
    """each bad-reply class of the property"""
    if kind == "random":
        return rb(rng, rng.choice([0, 1, 2, 10, 60, 104]))
    if kind == "random_v2_marker":
        return b"\x5a\x5a" + rb(rng, rng.choice([0, 4, 38, 54, 70, 102]))
    if kind == "random_v3_marker":
        return b"\x83\x70" + rb(rng, rng.choice([0, 4, 22, 62, 94, 126]))
    if kind == "short_body":
        body_len = rng.choice([0, 1, 3, 4, 7, 20, 39, 40])
        return spec_with_body(ctx, rng, rb(rng, body_len))
    if kind == "nontext_sn":
        return discsim.spec_reply(ctx, rng, rng.choice([2, 3]), 5, "10.1.1.1", 6444, b"\xff\xfe" + ascii_bytes(rng, 30), b"net_ac_1234")
    if kind == "nontext_name":
        return discsim.spec_reply(ctx, rng, rng.choice([2, 3]), 5, "10.1.1.1", 6444, ascii_bytes(rng, 32), b"net_ac_\xff\xfe")
    if kind == "no_separator":
        return discsim.spec_reply(ctx, rng, rng.choice([2, 3]), 5, "10.1.1.1", 6444, ascii_bytes(rng, 32), rng.choice([b"", b"netac", b"midea"]))
    if kind == "nonhex_type":
        return discsim.spec_reply(ctx, rng, rng.choice([2, 3]), 5, "10.1.1.1", 6444, ascii_bytes(rng, 32), rng.choice([b"net_zz_1", b"net__1", b"net_g1_"]))
    if kind == "xml_no_attrs":
        return rng.choice([b"<a/>", b"<root><body><device/></body></root>", b"<x><body><device port='abc'/></body></x>"])
    if kind == "name_past_end":
        body = bytes(4) + bytes(4) + ascii_bytes(rng, 32)
        return spec_with_body(ctx, rng, body)     # no name-length byte at all
    raise KeyError(kind)


BAD_KINDS = ["random", "random_v2_marker", "random_v3_marker", "short_body", "nontext_sn", "nontext_name",
             "no_separator", "nonhex_type", "xml_no_attrs", "name_past_end"]


def spec_with_body(ctx, rng, body):
    """a valid envelope around an arbitrary body (bypassing the field layout of Spec.Discover.body)"""
    from Crypto.Cipher import AES
    from Crypto.Util import Padding
    import simdev
    ct = AES.new(simdev.ENC_KEY, AES.MODE_ECB).encrypt(Padding.pad(body, 16))
    v2 = b"\x5a\x5a\x01\x11" + rb(rng, 16) + rb(rng, 6) + rb(rng, 14) + ct + rb(rng, 16)
    if rng.random() < 0.5:
        return v2
    return b"\x83\x70" + rb(rng, 6) + v2 + rb(rng, 16)


def is_xml(data):
    import xml.etree.ElementTree as ET
    try:
        ET.fromstring(data)
        return True
    except ET.ParseError:
        return False
    except Exception:  # noqa
        return False


def scenario(ctx, stream, rng, dgrams, hosts_good):
    """dgrams: list of (ip, src_port, payload) in arrival order; hosts_good: ip -> expected first-good payload or None"""
    timed = [(0.05 + 0.01 * i, ip, sp, payload) for i, (ip, sp, payload) in enumerate(dgrams)]
    out = discsim.run_discover(timed)
    inp = {"datagrams": [(ip, sp, hx(p)[:24] + "..", len(p)) for ip, sp, p in dgrams]}
    line = "discover_run dgrams=" + ",".join(f"{discsim.host_num(ip)}:{int(is_xml(p))}:{hx(p)}" for ip, sp, p in dgrams)
    model = ctx.driver.ask(line)
    if "exc" in out:
        ctx.violate(stream, inp, type(out["exc"]).__name__ + ": " + str(out["exc"])[:60], "a list of devices",
                    "one host's malformed reply aborted the whole discovery run")
        ctx.case(stream, key=line)
        return
    res = out["result"]
    got = sorted((discsim.host_num(d.ip), discsim.canon_device(d)) for d in res)
    mres = sorted((int(x.split("|")[0]), x.split("|")[1]) for x in model.split(";") if x)
    if got != mres:
        ctx.disagree(stream, inp, got, mres)
    # oracle, independent of the model: exactly one device per host whose FIRST datagram is a good reply
    want_hosts = sorted(discsim.host_num(ip) for ip, first_good in hosts_good.items() if first_good)
    got_hosts = sorted(h for h, _ in got)
    if got_hosts != want_hosts:
        ctx.violate(stream, inp, got_hosts, want_hosts,
                    "devices reported are not exactly one per host with a well-formed first reply")
    ctx.count(f"{stream}:hosts={len(hosts_good)}:dgrams={len(dgrams)}")
    ctx.case(stream, key=line, sample={"datagrams": len(dgrams), "hosts": len(hosts_good), "reported": len(res)})


def run(ctx):
    rng = ctx.rng
    if not ctx.driver:
        return
    thorough = ctx.tier == "thorough"
    ips = ["10.0.0.1", "10.0.0.2", "10.0.0.3", "10.0.0.4"]
    # duplicates from several ports, all interleavings for small cases
    for nh in (1, 2, 3):
        for _ in range(2 if not thorough else 6):
            per_host = {ip: [good_reply(ctx, rng) for _ in range(rng.randrange(1, 3))] for ip in ips[:nh]}
            items = [(ip, k) for ip in per_host for k in range(len(per_host[ip]))]
            if len(items) > 6:
                items = items[:6]
            seen = set()
            for perm in itertools.permutations(items):
                # keep each host's datagrams in their own order (k ascending): an interleaving
                if any(perm.index((ip, 0)) > perm.index((ip, 1)) for ip in per_host if len(per_host[ip]) > 1 and (ip, 1) in perm):
                    continue
                key = tuple(perm)
                if key in seen:
                    continue
                seen.add(key)
                dg = [(ip, rng.choice([6445, 40000 + k]), per_host[ip][0]) for ip, k in perm]   # duplicates of the same reply
                scenario(ctx, "interleavings", rng, dg, {ip: True for ip in per_host})
    # each bad class from every subset of hosts
    for kind in BAD_KINDS:
        for mask in range(1, 16 if thorough else 8):
            n = 4 if thorough else 3
            hosts = ips[:n]
            dg, good = [], {}
            for i, ip in enumerate(hosts):
                bad = bool(mask >> i & 1)
                first = bad_reply(ctx, rng, kind) if bad else good_reply(ctx, rng)
                dg.append((ip, 6445, first))
                good[ip] = not bad
                # later datagrams from the same host (even good ones) must not matter
                if rng.random() < 0.5:
                    dg.append((ip, 6446, good_reply(ctx, rng)))
            rng.shuffle(dg)
            # restore per-host order: first datagram of a host stays its first
            firsts = {}
            ordered = []
            for ip, sp, p in dg:
                ordered.append((ip, sp, p))
            # recompute expectation from the actual arrival order
            exp = {}
            for ip, sp, p in ordered:
                if ip not in exp:
                    exp[ip] = p
            good2 = {}
            for ip, p in exp.items():
                m = ctx.driver.ask(f"discover_run dgrams={discsim.host_num(ip)}:{int(is_xml(p))}:{hx(p)}")
                good2[ip] = None   # decided below without the model
            # model-free expectation: a first datagram is good iff it was produced by good_reply
            goodset = {}
            for ip, sp, p in ordered:
                if ip not in goodset:
                    goodset[ip] = any(p == q for (jp, _, q) in dg if jp == ip and good.get(ip) and q == p) if good[ip] else \
                        (p in [q for (jp, sp2, q) in dg if jp == ip and sp2 == 6446])
            scenario(ctx, "bad_" + kind, rng, ordered, goodset)
    # hosts are told apart by ADDRESS, not by what they say about themselves: several addresses answering with the same
    # device id (a cloned or relayed module), with byte-identical replies, or with replies differing only in version
    for _ in range(6 if not thorough else 60):
        n = rng.randrange(2, 5)
        hosts = ips[:n]
        did = rng.randrange(2 ** 48)
        same_bytes = good_reply(ctx, rng, dev_id=did)
        mode = rng.choice(["same_id", "same_bytes", "same_id_mixed_versions"])
        dg = []
        for i, ip in enumerate(hosts):
            if mode == "same_bytes":
                p = same_bytes
            elif mode == "same_id":
                p = good_reply(ctx, rng, dev_id=did)
            else:
                p = good_reply(ctx, rng, version=2 + i % 2, dev_id=did)
            dg.append((ip, 6445, p))
            if rng.random() < 0.4:
                dg.append((ip, 6446, p))
        rng.shuffle(dg)
        scenario(ctx, "same_device_id", rng, dg, {ip: True for ip in hosts})
    # units with unset clocks: every free byte of the replies (message id, timestamp, fillers, V3 envelope) is zero, so that
    # different units differ only in their identity; all-V3, all-V2 and mixed scans
    for _ in range(6 if not thorough else 60):
        n = rng.randrange(2, 5)
        hosts = ips[:n]
        vers = rng.choice([[3] * n, [2] * n, [rng.choice([2, 3]) for _ in range(n)]])
        dg = [(ip, 6445, good_reply(ctx, rng, version=v, zero_fill=True)) for ip, v in zip(hosts, vers)]
        rng.shuffle(dg)
        scenario(ctx, "unset_clocks", rng, dg, {ip: True for ip in hosts})
    # discover_single: malformed datagrams of OTHER hosts arriving before the target's reply do not matter (the API returns
    # the first device found, so well-formed strays are left out: which host is "first" is not specified)
    for _ in range(12 if not thorough else 150):
        target = ips[0]
        strays = []
        for _k in range(rng.randrange(1, 4)):
            ip = rng.choice(ips[1:])
            strays.append((ip, rng.choice([6445, 50000]), bad_reply(ctx, rng, rng.choice(BAD_KINDS))))
        reply = good_reply(ctx, rng)
        dgs = [(0.05 + 0.01 * i, ip, sp, p) for i, (ip, sp, p) in enumerate(strays)] + [(0.05 + 0.01 * len(strays), target, 6445, reply)]
        out = discsim.run_discover(dgs, single=True, target=target)
        inp = {"target": target, "strays_before": [(ip, len(p)) for ip, _sp, p in strays]}
        res = out.get("result") or []
        if "exc" in out or len(res) != 1 or res[0].ip != target:
            ctx.violate("single_with_strays", inp, {"exc": str(out.get("exc"))[:60], "found": [d.ip for d in res]}, [target],
                        "discover_single did not report the target because of datagrams from other hosts")
        ctx.case("single_with_strays", key=str((inp, hx(reply))), sample=inp)
    # random larger cases
    for _ in range(60 if not thorough else 1500):
        hosts = ips[:rng.randrange(1, 5)]
        dg, firstgood = [], {}
        for _ in range(rng.randrange(1, 10)):
            ip = rng.choice(hosts)
            if rng.random() < 0.6:
                p, g = good_reply(ctx, rng), True
            else:
                p, g = bad_reply(ctx, rng, rng.choice(BAD_KINDS)), False
            dg.append((ip, rng.choice([6445, 6446, 50000]), p))
            firstgood.setdefault(ip, g)
        scenario(ctx, "random", rng, dg, firstgood)


def search(ctx):
    run(ctx)


def replay(ctx, case):
    print(case["input"])
    print("observed:", case.get("observed"), "expected:", case.get("expected"))
    return 0
