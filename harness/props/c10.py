"""C10 — the control command encodes exactly the requested state (vendor bit layout)."""
import asyncio
import itertools

from msmart.base_device import Device
from msmart.device.AC import command as C
from msmart.device.AC.device import AirConditioner as AC

import acgen
from common import hx

FIELDS = ["power", "beep", "mode", "temp", "fan", "swing", "eco", "turbo", "sleep", "f", "freeze",
          "follow", "pur", "hum", "aux"]
BOOLS = ["power", "beep", "eco", "turbo", "sleep", "f", "freeze", "follow", "pur"]


def rand_state(rng):
    s = {k: rng.random() < 0.5 for k in BOOLS}
    s.update(mode=rng.randrange(1, 7), temp=rng.randrange(26, 88), fan=rng.randrange(1, 103),
             swing=rng.choice([0, 3, 12, 15]), hum=rng.randrange(0, 128), aux=rng.randrange(0, 3))
    return s


def state_str(s):
    return " ".join(f"{k}={int(s[k])}" for k in FIELDS)


PROP_SETTERS = [
    ("horizontal_swing_angle", lambda: AC.SwingAngle.POS_3), ("vertical_swing_angle", lambda: AC.SwingAngle.POS_5),
    ("rate_select", lambda: AC.RateSelect.GEAR_50), ("ieco", lambda: True), ("breeze_away", lambda: True),
    ("breeze_mild", lambda: True), ("breezeless", lambda: True),
]


def caps_frames():
    """captured capability responses of real units (with and without custom fan speed, different mode / swing sets)"""
    import respgen
    out = []
    for f in respgen.seeds():
        if respgen.kind_of(f) == "caps":
            try:
                if isinstance(C.Response.construct(f), C.CapabilitiesResponse):
                    out.append(f)
            except Exception:  # noqa
                pass
    return out


def via_apply(s, pending=(), caps=None):
    """set the state through the public setters (plus, optionally, property-protocol settings that are then pending
    for the same apply) and capture the 0x40 body apply() sends"""
    captured = []

    async def fake_send(self, command):
        captured.append(command.tobytes())
        return []
    orig = Device._send_command
    Device._send_command = fake_send
    try:
        dev = AC(ip="1.2.3.4", port=6444, device_id=1)
        if caps is not None:
            # the object has learnt the unit's capabilities before (what the unit supports must not rewrite the request)
            dev._update_capabilities(C.Response.construct(caps))
        dev.power_state = s["power"]
        dev.beep = s["beep"]
        try:
            dev.operational_mode = AC.OperationalMode(s["mode"])
        except ValueError:
            dev.operational_mode = s["mode"]
        dev.target_temperature = s["temp"] / 2
        dev.fan_speed = s["fan"]
        try:
            dev.swing_mode = AC.SwingMode(s["swing"])
        except ValueError:
            dev.swing_mode = s["swing"]
        dev.eco = s["eco"]
        dev.turbo = s["turbo"]
        dev.sleep = s["sleep"]
        dev.fahrenheit = s["f"]
        dev.freeze_protection = s["freeze"]
        dev.follow_me = s["follow"]
        dev.purifier = s["pur"]
        dev.target_humidity = s["hum"]
        dev.aux_mode = AC.AuxHeatMode(s["aux"])
        for name in pending:
            setattr(dev, name, dict(PROP_SETTERS)[name]())
        C.Command._message_id = 0
        try:
            asyncio.run(dev.apply())
        except Exception as e:  # noqa
            return None, "py:" + type(e).__name__
    finally:
        Device._send_command = orig
    states = [f for f in captured if len(f) > 10 and f[10] == 0x40]
    if len(states) != 1:
        return None, f"{len(states)} control commands sent"
    return states[0], None


def one(ctx, stream, s, pending=(), caps=None):
    frame, err = via_apply(s, pending, caps)
    inp = {"state": state_str(s)}
    if caps is not None:
        inp["capabilities_frame"] = hx(caps)
    if pending:
        inp["pending_properties"] = list(pending)
    want = "ok " + state_str(s)
    if frame is None:
        ctx.violate(stream, inp, err, want, "apply() raised for an in-domain state")
        ctx.case(stream, key=inp["state"])
        return
    body = frame[10:-3]
    if ctx.driver:
        # correspondence: model of apply() on the same attributes
        cfg = ",".join(f"{k}:{int(s[k])}" for k in ["power", "beep", "mode", "fan", "swing", "eco", "turbo", "sleep",
                                                      "f", "follow", "pur"])
        cfg += f",temp:{s['temp'] * 50},freeze:{int(s['freeze'])},hum:{s['hum']},auxmode:{s['aux']}"
        rep = ctx.driver.ask(f"devrun counter=0 cfg={cfg} ops=apply@")
        msent = rep.rsplit(" sent=", 1)[1]
        if msent != hx(frame) and not pending and caps is None:
            ctx.disagree(stream, inp, hx(frame), msent)
        # oracle: the vendor-layout decoder reads back the requested state
        dec = ctx.driver.ask(f"spec_decode_setstate body={hx(body)}")
        if dec != want:
            ctx.violate(stream, inp, {"body": hx(body), "decoded": dec}, want,
                        "0x40 body does not decode (vendor layout) to the requested state")
    ctx.case(stream, key=inp["state"], sample={"state": inp["state"], "body": hx(body)})
    return body


def run(ctx):
    rng = ctx.rng
    seen_bodies = {}

    def go(stream, s, pending=(), caps=None):
        body = one(ctx, stream, s, pending, caps)
        if body is not None:
            k = bytes(body)
            prev = seen_bodies.get(k)
            if prev is not None and prev != state_str(s):
                ctx.violate(stream, {"state": state_str(s), "other": prev}, {"body": hx(k)}, "distinct bodies",
                            "two distinct requested states produced the same command body")
            seen_bodies[k] = state_str(s)
    reps = 1 if ctx.tier == "quick" else 6
    for _ in range(reps):
        # all 62 setpoints x all modes 0..7
        for t in range(26, 88):
            for m in range(0, 8):
                s = rand_state(rng)
                s.update(temp=t, mode=m)
                go("setpoint_x_mode", s)
        # every fan byte
        for f in range(0, 256):
            s = rand_state(rng)
            s["fan"] = f
            go("fan", s)
        for sw in range(0, 16):
            s = rand_state(rng)
            s["swing"] = sw
            go("swing", s)
        for h in range(0, 128):
            s = rand_state(rng)
            s["hum"] = h
            go("humidity", s)
        # all flag combinations (9 booleans) x aux
        for bits in itertools.product([False, True], repeat=len(BOOLS)):
            s = rand_state(rng)
            s.update(dict(zip(BOOLS, bits)))
            s["aux"] = rng.randrange(3)
            go("flags", s)
        for a in range(3):
            for e, p in itertools.product([False, True], repeat=2):
                s = rand_state(rng)
                s.update(aux=a, eco=e, pur=p)
                go("aux_x_b9", s)
    # the control command must carry the requested state (beep included) also when property-protocol settings are
    # pending for the same apply(): every single pending setting and random subsets, all flag combinations of b1
    for name, _v in PROP_SETTERS:
        for power, beep in itertools.product([False, True], repeat=2):
            s = rand_state(rng)
            s.update(power=power, beep=beep)
            go("pending_properties", s, (name,))
    for _ in range(40 if ctx.tier == "quick" else 600):
        k = rng.randrange(1, 4)
        go("pending_properties", rand_state(rng), tuple(rng.sample([n for n, _ in PROP_SETTERS], k)))
    # an object that has processed a capabilities response (every captured one) still sends exactly what is requested:
    # every fan value, every mode / swing / flag against every profile
    cf = caps_frames()
    for k, frame in enumerate(cf):
        for f in (range(0, 256) if (ctx.tier != "quick" or k < 3) else list(range(1, 103, 5)) + [41, 42, 59, 61, 79, 81, 101, 102]):
            s = rand_state(rng)
            s["fan"] = f
            go("after_capabilities", s, caps=frame)
        for _ in range(30):
            go("after_capabilities", rand_state(rng), caps=frame)
    # pairs of fields at their boundary values (a change that shows only when TWO fields sit at an edge together)
    bounds = {"temp": [26, 27, 33, 34, 35, 60, 61, 62, 63, 86, 87], "fan": [0, 1, 2, 100, 101, 102, 103, 127, 128, 254, 255],
              "hum": [0, 1, 63, 64, 126, 127], "mode": [0, 1, 5, 6, 7], "swing": [0, 3, 12, 15], "aux": [0, 1, 2]}
    names = list(bounds)
    for a_i in range(len(names)):
        for b_i in range(a_i + 1, len(names)):
            fa, fb = names[a_i], names[b_i]
            for va in bounds[fa]:
                for vb in bounds[fb]:
                    if ctx.tier == "quick" and not (va in (bounds[fa][0], bounds[fa][-1]) or vb in (bounds[fb][0], bounds[fb][-1])):
                        continue
                    s = rand_state(rng)
                    s[fa], s[fb] = va, vb
                    go("boundary_pairs", s)
    for _ in range(1500 if ctx.tier == "quick" else 30000):
        go("random", rand_state(rng))


def search(ctx):
    run(ctx)


def replay(ctx, case):
    st = dict(kv.split("=") for kv in case["input"]["state"].split())
    s = {k: int(v) for k, v in st.items()}
    for k in BOOLS:
        s[k] = bool(s[k])
    cfr = case["input"].get("capabilities_frame")
    frame, err = via_apply(s, tuple(case["input"].get("pending_properties", ())), bytes.fromhex(cfr) if cfr else None)
    print("impl body:", hx(frame[10:-3]) if frame else err)
    if ctx.driver and frame:
        print("spec decode:", ctx.driver.ask(f"spec_decode_setstate body={hx(frame[10:-3])}"))
        print("requested  : ok", case["input"]["state"])
    return 0
