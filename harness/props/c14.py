"""C14 — application containment: no device response makes an operation raise; undecodable
responses are skipped, decodable ones of the same exchange are still applied."""
import acgen
import devrun
import respgen
from common import hx

ALLOWED = ("err:invalid_frame", "err:invalid_response")


def check_construct(ctx, stream, frame, note=None):
    impl, _ = acgen.impl_construct(frame)
    inp = {"frame": hx(frame), "note": note}
    if ctx.driver:
        model = acgen.canon_model_response(ctx.driver.ask(f"construct frame={hx(frame)}"))
        if model != impl:
            ctx.disagree(stream, inp, impl, model)
    if impl.startswith("err:py:"):
        ctx.violate(stream, inp, impl, "a response, InvalidFrameException or InvalidResponseException",
                    "Response.construct lets %s escape" % impl[4:])
    ctx.count(f"{stream}:{impl.split(' ')[0] if not impl.startswith('err') else impl}")
    ctx.case(stream, key=hx(frame), nontrivial=not impl.startswith("err:invalid_frame"),
             sample={"frame": hx(frame), "impl": impl[:100]})
    return impl


def truncations(frame):
    body = frame[10:-2]
    style = respgen.style_of(frame)
    for k in range(0, len(body)):
        yield respgen.make_frame(body[:k], frame_type=frame[9], style=style if style != "none" else "crc")


def gen_bad_frames(rng, seeds, n):
    """a stream of malformed-but-checksummed frames"""
    out = []
    for _ in range(n):
        s = rng.choice(seeds)
        r = rng.random()
        body = bytearray(s[10:-2])
        if r < 0.3 and len(body) > 1:
            body = body[:rng.randrange(0, len(body))]
        elif r < 0.7 and len(body) > 2:
            i = rng.randrange(1, len(body))
            body[i] = rng.choice([0, 1, 2, 3, 5, 6, 7, 8, 0x7F, 0x80, 0xFF, rng.randrange(256)])
        elif r < 0.8:
            body[0] = rng.randrange(256)
        else:
            body += bytes(rng.randrange(256) for _ in range(rng.randrange(1, 8)))
        ft = s[9] if rng.random() < 0.8 else rng.choice([2, 3, 4, 5, 6])
        if len(body) + 11 > 255:
            body = body[:200]
        out.append(respgen.make_frame(bytes(body), frame_type=ft, style=rng.choice(["crc", "sum"])))
    return out


def short_states(seeds):
    """DECODABLE but degenerate responses: every state response of the seeds cut to each payload length 16..24
    (payload = body + message id; optional trailing fields absent -> attributes stay unknown)"""
    out = []
    for s in seeds:
        if len(s) > 12 and s[10] == 0xC0:
            body = s[10:-2]
            for k in range(15, min(len(body), 24)):
                out.append(respgen.make_frame(body[:k], frame_type=s[9], style="crc"))
    return out


def exchange(ctx, rng, seeds, n, stream="exchange", nops=(1, 1)):
    """`nops` operations in a row on the SAME device object: what an earlier response left behind (unknown optional
    fields, capabilities, pending properties) must not make a later operation raise"""
    shorts = short_states(seeds)
    for _ in range(n):
        cfg = [("reqe", str(rng.randrange(2))), ("shum", str(rng.randrange(2))),
               ("sprops", "+".join(str(x) for x in rng.sample([9, 10, 24, 57, 66, 67, 72, 227], rng.randrange(0, 4))))]
        ops, names = [], []
        for _k in range(rng.randrange(nops[0], nops[1] + 1)):
            op = rng.choice(["refresh", "apply", "getcaps", "toggle", "selfclean"])
            replies = []
            for _ in range(rng.randrange(1, 5)):
                fs = []
                for _ in range(rng.randrange(0, 4)):
                    r = rng.random()
                    if r < 0.4:
                        fs.append(rng.choice(seeds))
                    elif r < 0.6 and shorts:
                        fs.append(rng.choice(shorts))
                    else:
                        fs.extend(gen_bad_frames(rng, seeds, 1))
                replies.append(fs)
            if op == "apply" and not any(k == "rate" for k, _v in cfg):
                cfg.append(("rate", "50"))
            ops.append(("op", op, replies))
            names.append(op)
        st, failed, state, sent, dev = devrun.compare(ctx, stream, cfg, rng.randrange(0, 300), ops)
        inp = {"line": devrun.line_for(cfg, 0, ops)}
        if st != "ok":
            ctx.violate(stream, inp, st, "operation returns normally", f"{'+'.join(names)}: raised {st[4:]}")
        else:
            good = [("op", o, [[f for f in r if not acgen.impl_construct(f)[0].startswith("err")] for r in reps])
                    for (_t, o, reps) in ops]
            st2, _, state2, _, _ = devrun.run_impl(cfg, 0, good)
            if st2 != "ok" or state2 != state:
                ctx.violate(stream, inp, {"state": state}, {"state_from_decodable_only": state2, "status": st2},
                            "decodable responses of a mixed exchange were not applied exactly")
        ctx.count(f"{stream}:{'+'.join(names) if len(names) == 1 else str(len(names)) + 'ops'}:{st}")
        ctx.case(stream, key=inp["line"], sample={"ops": names, "status": st})


def run(ctx):
    rng = ctx.rng
    seeds = respgen.seeds()
    ctx.notes.append(f"{len(seeds)} captured frames from the repo's tests used as seeds")
    thorough = ctx.tier == "thorough"
    for s in seeds:
        check_construct(ctx, "seed", s)
    for s in seeds:
        for f in truncations(s):
            check_construct(ctx, "truncate", f, "body truncated, checks recomputed")
    # count / size fields: every body position, a value set; the count byte and the first size byte exhaustively
    for s in seeds:
        body = bytearray(s[10:-2])
        style = respgen.style_of(s)
        style = style if style != "none" else "crc"
        for i in range(1, len(body)):
            if thorough or i in (1, 4, 5):
                vals = range(256)
            else:
                vals = sorted(set([0, 1, 2, 5, 6, 7, 0x10, 0x7F, 0xFF, rng.randrange(256), rng.randrange(256)]))
            for v in vals:
                if v == body[i]:
                    continue
                b2 = bytearray(body)
                b2[i] = v
                check_construct(ctx, "fieldset", respgen.make_frame(bytes(b2), frame_type=s[9], style=style))
    # every response id with random bodies
    for rid in range(256):
        for n in ([1, 2, 3, 4, 5, 13, 16, 19, 20, 24] if not thorough else range(1, 41)):
            for ft in ([2, 3, 5] if not thorough else [0, 2, 3, 4, 5, 6]):
                body = bytes([rid]) + bytes(rng.randrange(256) for _ in range(n - 1))
                check_construct(ctx, "ids", respgen.make_frame(body, frame_type=ft, style=rng.choice(["crc", "sum"])))
    # raw: empty and tiny frames, random bytes with only the outer checksum right
    for n in range(0, 14):
        raw = bytes(rng.randrange(256) for _ in range(n))
        check_construct(ctx, "raw", raw)
        if n >= 1:
            check_construct(ctx, "raw", respgen.outer(raw))
    for _ in range(300 if not thorough else 5000):
        raw = bytes(rng.randrange(256) for _ in range(rng.randrange(1, 60)))
        check_construct(ctx, "raw", respgen.outer(raw))
    exchange(ctx, rng, seeds, 400 if not thorough else 6000)
    exchange(ctx, rng, seeds, 300 if not thorough else 5000, stream="sequence", nops=(2, 4))


def search(ctx):
    rng = ctx.rng
    seeds = respgen.seeds()
    for f in gen_bad_frames(rng, seeds, 30000):
        check_construct(ctx, "search", f)
        if ctx.violations:
            return
    exchange(ctx, rng, seeds, 3000)
    exchange(ctx, rng, seeds, 3000, stream="sequence", nops=(2, 4))


def replay(ctx, case):
    inp = case["input"]
    if "frame" in inp:
        f = bytes.fromhex(inp["frame"]) if inp["frame"] != "-" else b""
        print("impl :", acgen.impl_construct(f)[0])
        if ctx.driver:
            print("model:", ctx.driver.ask(f"construct frame={hx(f)}"))
    else:
        print("model:", ctx.driver.ask(inp["line"]) if ctx.driver else "n/a")
        print("recorded impl:", case.get("observed"))
    return 0
