"""C11 — state responses decode to exactly the reported state; temperature facts."""
import acgen
import devrun
import respgen
from common import hx
from msmart.device.AC.device import AirConditioner as AC

OP_MODES = {int(m) for m in AC.OperationalMode}
SWINGS = {int(m) for m in AC.SwingMode}


def exposed(dev):
    """public attributes in the Spec's units"""
    t = dev.target_temperature
    return {
        "power": int(dev.power_state), "mode": int(dev.operational_mode), "temp": round(t * 2) if abs(t * 2 - round(t * 2)) < 1e-9 else t,
        "fan": int(dev.fan_speed), "swing": int(dev.swing_mode), "turbo": int(dev.turbo), "eco": int(dev.eco),
        "sleep": int(dev.sleep), "f": int(dev.fahrenheit), "filter": int(dev.filter_alert), "display": int(dev.display_on),
        "follow": int(dev.follow_me), "pur": int(dev.purifier), "aux": int(dev.aux_mode),
        "hum": dev.target_humidity, "freeze": None if dev.freeze_protection is None else int(dev.freeze_protection),
    }


def spec_reported(ctx, payload):
    rep = ctx.driver.ask(f"spec_reported payload={hx(payload)}")
    d = {}
    for kv in rep.split():
        k, v = kv.split("=")
        d[k] = None if v == "None" else int(v)
    return d


def temp_facts(ctx, stream, inp, raw, digit, fahrenheit, value):
    """the three temperature facts of the property, evaluated on the implementation's output"""
    if raw == 0xFF:
        if value is not None:
            ctx.violate(stream, inp, value, None, "temperature not unknown for the 0xFF sentinel")
        return
    if value is None:
        ctx.violate(stream, inp, None, "a number", "temperature unknown although the byte is not the sentinel")
        return
    coarse = (raw - 50) / 2
    if digit <= 9 and not abs(value - coarse) < 1:
        ctx.violate(stream, inp, value, f"within 1 of {coarse}", "temperature not within one degree of the coarse reading")
    if not fahrenheit and 1 <= digit <= 9:
        want = int(coarse) + (digit / 10 if coarse >= 0 else -digit / 10)
        if abs(value - want) > 1e-9:
            ctx.violate(stream, inp, value, want, "Celsius tenths digit not reflected exactly")


def one(ctx, stream, payload, style="crc", ft=3, via="construct"):
    frame = respgen.make_frame(payload, frame_type=ft, style=style)
    inp = {"payload": hx(payload), "style": style, "frame": hx(frame)}
    if ctx.driver:
        sf = ctx.driver.ask(f"spec_resp_frame ft={ft} proto=3 style={style} payload={hx(payload)}")
        if sf != hx(frame):
            ctx.disagree(stream + ":specframe", inp, hx(frame), sf)
    if via == "construct":
        impl, resp = acgen.impl_construct(frame)
        if ctx.driver:
            m = acgen.canon_model_response(ctx.driver.ask(f"construct frame={hx(frame)}"))
            if m != impl:
                ctx.disagree(stream, inp, impl, m)
        if resp is None or not impl.startswith("state"):
            ctx.violate(stream, inp, impl, "a state response", "valid status frame not decoded")
            ctx.case(stream, key=hx(frame))
            return
        dev = AC(ip="1.2.3.4", port=6444, device_id=1)
        dev._update_state(resp)
    else:
        st, failed, state, sent, dev = devrun.compare(ctx, stream, [], 0, [("op", "refresh", [[frame]])])
        if st != "ok" or not dev.online:
            ctx.violate(stream, inp, st, "ok/online", "refresh with a valid status frame failed")
            ctx.case(stream, key=hx(frame))
            return
    if ctx.driver:
        want = spec_reported(ctx, payload)
        got = exposed(dev)
        if want["mode"] not in OP_MODES:
            want["mode"] = got["mode"]     # unlisted raw mode: falls back to the enumeration default (not asserted)
        if want["swing"] not in SWINGS:
            want["swing"] = got["swing"]
        if got != want:
            diff = {k: (got[k], want[k]) for k in got if got[k] != want[k]}
            ctx.violate(stream, inp, diff, "attributes equal the reported values",
                        "exposed attributes differ from the state the device reported")
    f = bool(payload[10] & 4)
    temp_facts(ctx, stream, inp, payload[11], payload[15] & 0xF, f, dev.indoor_temperature)
    temp_facts(ctx, stream, inp, payload[12], payload[15] >> 4, f, dev.outdoor_temperature)
    ctx.case(stream, key=hx(frame), sample={"payload": hx(payload), "style": style,
                                            "indoor": dev.indoor_temperature, "target": dev.target_temperature})


def local_changes(rng, dev):
    """the user changes settings locally without applying them"""
    for _ in range(rng.randrange(0, 4)):
        k = rng.randrange(8)
        if k == 0:
            dev.power_state = not dev.power_state
        elif k == 1:
            dev.target_temperature = rng.randrange(34, 61) / 2
        elif k == 2:
            dev.fan_speed = rng.randrange(1, 101)
        elif k == 3:
            dev.eco = not dev.eco
        elif k == 4:
            dev.turbo = not dev.turbo
        elif k == 5:
            dev.operational_mode = rng.choice(list(AC.OperationalMode))
        elif k == 6:
            dev.target_humidity = rng.randrange(30, 90)
        else:
            dev.freeze_protection = not dev.freeze_protection


def history(ctx, rng, n, steps):
    """ONE device object receives a sequence of state reports - repeated reports, reports differing from the previous one
    in a single byte (every position, the last one included), unrelated reports - with local, un-applied setter calls
    in between: after EVERY report the exposed attributes are what that report says ("a refresh reports the device's
    state", whatever the object saw or was told before)."""
    stream = "history"
    dev = AC(ip="1.2.3.4", port=6444, device_id=1)
    prev = bytes(base_payload(rng, n))
    pos = 1
    for step in range(steps):
        kind = rng.choice(["same", "one_byte", "one_byte", "fresh"])
        if kind == "same":
            p = prev
        elif kind == "one_byte":
            b = bytearray(prev)
            b[pos] = (b[pos] + rng.randrange(1, 256)) & 0xFF
            pos = pos + 1 if pos + 1 < len(b) else 1
            p = bytes(b)
        else:
            p = bytes(base_payload(rng, n))
        local_changes(rng, dev)
        frame = respgen.make_frame(p, frame_type=3, style=rng.choice(["crc", "sum"]))
        impl, resp = acgen.impl_construct(frame)
        inp = {"payload": hx(p), "previous_payload": hx(prev), "step": step, "kind": kind, "frame": hx(frame)}
        if resp is None or not impl.startswith("state"):
            ctx.violate(stream, inp, impl, "a state response", "valid status frame not decoded")
            return
        dev._update_state(resp)
        if ctx.driver:
            want = spec_reported(ctx, p)
            got = exposed(dev)
            if want["mode"] not in OP_MODES:
                want["mode"] = got["mode"]
            if want["swing"] not in SWINGS:
                want["swing"] = got["swing"]
            if want["hum"] is None:
                want["hum"] = got["hum"]          # an absent optional field leaves the previous value (not a fresh object)
            if want["freeze"] is None:
                want["freeze"] = got["freeze"]
            if got != want:
                diff = {k: (got[k], want[k]) for k in got if got[k] != want[k]}
                ctx.violate(stream, inp, diff, "attributes equal the reported values",
                            "after a sequence of reports and local changes the attributes differ from the LAST report")
        f = bool(p[10] & 4)
        temp_facts(ctx, stream, inp, p[11], p[15] & 0xF, f, dev.indoor_temperature)
        temp_facts(ctx, stream, inp, p[12], p[15] >> 4, f, dev.outdoor_temperature)
        ctx.case(stream, key=(hx(p), hx(prev), step), sample={"payload": hx(p), "kind": kind})
        prev = p


def interesting_bytes():
    """byte values that mean something to the decoder: every integer literal below 256 in the current source of the state
    response parser, their neighbours, and the usual edges"""
    import ast
    import inspect
    import msmart.device.AC.command as cmd
    vals = {0, 1, 2, 0x0F, 0x10, 0x1F, 0x20, 0x3F, 0x40, 0x7F, 0x80, 0xF0, 0xFE, 0xFF}
    try:
        for fn in (cmd.StateResponse._parse, cmd.StateResponse._parse_temperature):
            for n in ast.walk(ast.parse(inspect.getsource(fn).lstrip() if False else __import__("textwrap").dedent(inspect.getsource(fn)))):
                if isinstance(n, ast.Constant) and isinstance(n.value, int) and not isinstance(n.value, bool) and 0 <= n.value <= 255:
                    vals |= {n.value, (n.value + 1) & 0xFF, (n.value - 1) & 0xFF}
    except Exception:  # noqa
        pass
    return sorted(vals)


def pairwise(ctx, rng, n, thorough):
    """two payload bytes at interesting values at once, every pair of positions"""
    vals = interesting_bytes()
    if not thorough:
        vals = [v for v in vals if v in (0, 1, 0x10, 0x1F, 0x20, 0x70, 0x7F, 0x80, 0xFF)] or vals[:9]
    base = bytes(base_payload(rng, n))
    for i in range(1, n):
        for j in range(i + 1, n):
            for u in vals:
                for v in (vals if thorough else [u]):
                    p = bytearray(base)
                    p[i], p[j] = u, v
                    one(ctx, "pairwise", bytes(p), style="crc")


def base_payload(rng, n=None):
    n = n if n is not None else rng.choice([16, 19, 20, 21, 22, 23, 24, 30])
    p = bytearray(rng.randrange(256) for _ in range(n))
    p[0] = 0xC0
    return p


def run(ctx):
    rng = ctx.rng
    thorough = ctx.tier == "thorough"
    # temperatures: all 256 x 10 digits x 2 units, both sensors (digits 10..15 as a malformed extra)
    for raw in range(256):
        for digit in range(16 if thorough else 10):
            for f in (0, 4):
                p = base_payload(rng, 23)
                p[10] = (p[10] & ~4) | f
                p[11] = raw
                p[12] = (raw * 7 + digit) & 0xFF
                p[15] = digit | (rng.randrange(10) << 4)
                one(ctx, "indoor", bytes(p), style=rng.choice(["crc", "sum"]))
                p[12] = raw
                p[11] = rng.randrange(256)
                p[15] = (digit << 4) | rng.randrange(10)
                one(ctx, "outdoor", bytes(p), style=rng.choice(["crc", "sum"]))
    # all 32 alternate codes x all 32 primary codes (incl. half bit)
    for alt in range(32):
        for prim in range(32):
            p = base_payload(rng)
            p[2] = (p[2] & 0xE0) | prim
            p[13] = (p[13] & 0xE0) | alt
            one(ctx, "setpoint", bytes(p), style=rng.choice(["crc", "sum"]))
    # all 256 values of each flag byte
    for idx in (1, 2, 3, 7, 8, 9, 10, 13, 14, 19, 21):
        for v in range(256):
            p = base_payload(rng, 23)
            p[idx] = v
            one(ctx, f"byte{idx}", bytes(p), style=rng.choice(["crc", "sum"]))
    # all lengths from the minimum upward, both check styles, also through refresh()
    for n in range(16, 41 if not thorough else 100):
        for style in ("crc", "sum"):
            for _ in range(3):
                one(ctx, "length", bytes(base_payload(rng, n)), style=style)
            one(ctx, "refresh", bytes(base_payload(rng, n)), style=style, via="refresh")
    for n in (16, 17, 19, 20, 22, 23, 30):
        for _ in range(2 if not thorough else 30):
            history(ctx, rng, n, 3 * n)
    pairwise(ctx, rng, 23, thorough)
    # "the attributes exposed after a refresh equal the reported values" through the WHOLE stack, with an older report
    # pushed by the unit before the refresh (shared with C01): the answer to the refresh is what counts
    if ctx.driver:
        from props import c01
        for version in (2, 3):
            for _ in range(2 if not thorough else 20):
                c01.stale_scenario(ctx, "refresh_after_stale_report", rng, version)
    for _ in range(500 if not thorough else 20000):
        one(ctx, "random", bytes(base_payload(rng)), style=rng.choice(["crc", "sum"]),
            ft=rng.choice([2, 3, 4, 5]))


def search(ctx):
    run(ctx)


def replay(ctx, case):
    inp = case["input"]
    frame = bytes.fromhex(inp["frame"])
    impl, resp = acgen.impl_construct(frame)
    print("impl :", impl)
    if ctx.driver:
        print("model:", ctx.driver.ask(f"construct frame={hx(frame)}"))
        print("spec :", ctx.driver.ask(f"spec_reported payload={inp['payload']}"))
    return 0
