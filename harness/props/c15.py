"""C15 — capability records are interpreted independently and survive paging."""
import acgen
import devrun
import respgen
from common import hx
from msmart.device.AC import command as C

KNOWN_IDS = [int(c) for c in C.CapabilityId]
TEMPS = int(C.CapabilityId.TEMPERATURES)


def gen_record(rng):
    r = rng.random()
    if r < 0.62:
        cid = rng.choice(KNOWN_IDS)
    elif r < 0.72:
        cid = TEMPS
    else:
        cid = rng.choice([0x0000, 0x0001, 0x0211, 0x0226, 0x1234, 0xFFFF, rng.randrange(65536)])
    r2 = rng.random()
    if cid == TEMPS and r2 < 0.7:
        size = rng.choice([1, 2, 3, 5, 6, 7, 8, 10])
    elif r2 < 0.12:
        size = 0
    elif r2 < 0.8:
        size = 1
    else:
        size = rng.randrange(1, 11)
    data = bytes(rng.choice([0, 1, 2, 3, 4, 5, 6, 7, 9, 10, 13, 100, rng.randrange(256)]) for _ in range(size))
    return (cid, data)


def parse_alone(body):
    """raw_capabilities (canonical) of a capabilities payload via the real parser"""
    frame = respgen.make_frame(body, frame_type=3)
    s, r = acgen.impl_construct(frame)
    return s, r


def caps_dict(r):
    return dict(r.raw_capabilities)


def oracle_compositional(ctx, stream, recs, trailer):
    body = respgen.caps_body(recs, trailer=trailer + b"\x00")   # + message id byte
    s, r = parse_alone(body)
    inp = {"records": [(cid, hx(d)) for cid, d in recs], "trailer": hx(trailer), "frame": hx(respgen.make_frame(body))}
    if ctx.driver:
        m = ctx.driver.ask(f"construct frame={hx(respgen.make_frame(body))}")
        if acgen.canon_model_response(m) != s:
            ctx.disagree(stream, inp, s, m)
    if r is None or not isinstance(r, C.CapabilitiesResponse):
        ctx.violate(stream, inp, s, "a capabilities response", "well-formed capability list not decoded")
        return None
    merged = {}
    for rec in recs:
        s1, r1 = parse_alone(respgen.caps_body([rec], trailer=b"\x00\x00"))
        if r1 is None:
            ctx.violate(stream, inp, s1, "decoded", f"single well-formed record {rec[0]:#x}/{hx(rec[1])} not decoded")
            return None
        merged.update(caps_dict(r1))
    got = caps_dict(r)
    if got != merged:
        ctx.violate(stream, inp, {"parsed": {k: str(v) for k, v in got.items()}},
                    {"each_alone_merged": {k: str(v) for k, v in merged.items()}},
                    "capabilities differ from interpreting each record alone and merging in order")
    ctx.count(f"{stream}:records={len(recs)}")
    for cid, d in recs:
        ctx.count("rec:" + ("temps" if cid == TEMPS else "known" if cid in KNOWN_IDS else "unknown") + f":size={min(len(d), 7)}")
    return r


def paging(ctx, stream, recs, k, rng):
    """device delivers recs[:k] with the additional flag set, then recs[k:] on the second request;
    public attributes after get_capabilities() equal those from one response carrying all records"""
    mid = bytes([rng.randrange(256)])      # trailer = [additional flag, message id]
    one = respgen.make_frame(respgen.caps_body(recs, trailer=b"\x00" + mid))
    first = respgen.make_frame(respgen.caps_body(recs[:k], trailer=bytes([rng.choice([1, 1, 2, 0xFF])]) + mid))
    second = respgen.make_frame(respgen.caps_body(recs[k:], trailer=b"\x00" + mid))
    st1, _, state1, _, dev1 = devrun.compare(ctx, stream, [], 0, [("op", "getcaps", [[one]])])
    st2, _, state2, sent2, dev2 = devrun.compare(ctx, stream, [], 0, [("op", "getcaps", [[first], [second]])])
    inp = {"records": [(cid, hx(d)) for cid, d in recs], "split": k,
           "line": devrun.line_for([], 0, [("op", "getcaps", [[first], [second]])])}
    if st1 != "ok" or st2 != "ok":
        ctx.violate(stream, inp, [st1, st2], "ok", "get_capabilities raised")
    elif state1 != state2:
        a = dict(kv.split("=") for kv in state1.split())
        b = dict(kv.split("=") for kv in state2.split())
        ctx.violate(stream, inp, {k_: (a[k_], b[k_]) for k_ in a if a[k_] != b[k_]}, "equal",
                    "capabilities differ between one response and the same records split across two pages")
    elif len(sent2) != 2:
        ctx.violate(stream, inp, len(sent2), 2, "the additional capabilities page was not requested")
    ctx.case(stream, key=inp["line"], sample={"records": len(recs), "split": k})


def run(ctx):
    rng = ctx.rng
    thorough = ctx.tier == "thorough"
    # every known id with every first value, alone and next to a neighbour
    for cid in KNOWN_IDS:
        for v in range(256):
            if not thorough and v > 16 and v % 5:
                continue
            nb = gen_record(rng)
            recs = [(cid, bytes([v])), nb] if rng.random() < 0.5 else [nb, (cid, bytes([v]))]
            oracle_compositional(ctx, "known_x_value", recs, b"\x00")
            ctx.case("known_x_value", key=(cid, v, nb), sample={"records": [(r[0], hx(r[1])) for r in recs]})
    # undersized / odd-sized temperature records next to neighbours
    for size in range(0, 11):
        for _ in range(6 if not thorough else 60):
            t = (TEMPS, bytes(rng.randrange(256) for _ in range(size)))
            recs = [gen_record(rng) for _ in range(rng.randrange(0, 3))] + [t] + [gen_record(rng) for _ in range(rng.randrange(1, 4))]
            oracle_compositional(ctx, "temperature_sizes", recs, b"\x00")
            ctx.case("temperature_sizes", key=tuple(recs), sample={"records": [(r[0], hx(r[1])) for r in recs]})
    # random ordered lists up to 12 records, all split points
    for _ in range(300 if not thorough else 6000):
        n = rng.randrange(0, 13)
        recs = [gen_record(rng) for _ in range(n)]
        oracle_compositional(ctx, "lists", recs, bytes([rng.randrange(2)]))
        ctx.case("lists", key=tuple(recs), sample={"records": [(r[0], hx(r[1])) for r in recs]})
    for _ in range(60 if not thorough else 800):
        n = rng.randrange(1, 13)
        recs = [gen_record(rng) for _ in range(n)]
        for k in range(0, n + 1):
            paging(ctx, "paging", recs, k, rng)


def search(ctx):
    run(ctx)


def replay(ctx, case):
    inp = case["input"]
    if "frame" in inp:
        f = bytes.fromhex(inp["frame"])
        print("impl :", acgen.impl_construct(f)[0])
        if ctx.driver:
            print("model:", ctx.driver.ask(f"construct frame={hx(f)}"))
    elif "line" in inp and ctx.driver:
        print("model:", ctx.driver.ask(inp["line"]))
    print("recorded:", case.get("observed"), "expected:", case.get("expected"))
    return 0
