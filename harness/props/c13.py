"""C13 — corrupted responses are rejected and never change state."""
import acgen
import devrun
import respgen
from common import hx


def mechanism(orig, mutated):
    """independent classification of WHY a body substitution with recomputed outer checksum was
    accepted (used by the known-finding predicates)"""
    body = mutated[10:-2]
    check = mutated[-2]
    if mutated[10] in (0xB0, 0xB1):
        return "properties-id-exemption"
    crc_ok = respgen.spec_crc8(body) == check
    sum_ok = ((~sum(body) + 1) & 0xFF) == check
    o_body = orig[10:-2]
    o_crc = respgen.spec_crc8(o_body) == orig[-2]
    o_sum = ((~sum(o_body) + 1) & 0xFF) == orig[-2]
    if (crc_ok and not o_crc) or (sum_ok and not o_sum):
        return "alt-check-coincidence"
    if crc_ok and o_crc and sum_ok is False:
        return "unexplained:crc-collision"
    return "unexplained"


def _pred(name):
    return lambda v: v.get("observed", {}).get("mechanism") == name


KNOWN = {
    "D6-alt-check-coincidence": _pred("alt-check-coincidence"),
    "D6-properties-id-exemption": _pred("properties-id-exemption"),
}


def sweep(ctx, seeds, positions_vals):
    """positions_vals(frame) -> iterable of (index, value)"""
    lines = []
    meta = []
    for s in seeds:
        kind = respgen.kind_of(s)
        n = len(s)
        for i, v in positions_vals(s):
            # without fix-up: any byte after the start byte
            m1 = bytearray(s)
            m1[i] = v
            m1 = bytes(m1)
            impl, _ = acgen.impl_construct(m1)
            lines.append(f"construct frame={hx(m1)}")
            meta.append(("nofix", s, m1, impl, kind, i))
            if impl != "err:invalid_frame":
                ctx.violate("nofix", {"orig": hx(s), "frame": hx(m1), "index": i}, {"impl": impl},
                            "err:invalid_frame", "single-byte corruption without fix-up was not dropped by the frame checksum")
            # with outer checksum recomputed: body bytes other than the trailing check byte
            if 10 <= i < n - 2:
                m2 = respgen.outer(m1[:-1])
                impl2, _ = acgen.impl_construct(m2)
                lines.append(f"construct frame={hx(m2)}")
                meta.append(("fixup", s, m2, impl2, kind, i))
                if not impl2.startswith("err") and kind not in ("props", "props_ack"):
                    ctx.violate("fixup", {"orig": hx(s), "frame": hx(m2), "index": i},
                                {"impl": impl2[:60], "mechanism": mechanism(s, m2)}, "dropped",
                                "body corruption with recomputed outer checksum was accepted")
    if ctx.driver:
        replies = ctx.driver.batch(lines)
        for (stream, s, m, impl, kind, i), rep in zip(meta, replies):
            if acgen.canon_model_response(rep) != impl:
                ctx.disagree(stream, {"frame": hx(m)}, impl, rep)
    for (stream, s, m, impl, kind, i) in meta:
        ctx.count(f"{stream}:{kind}:{'dropped' if impl.startswith('err') else 'accepted'}")
        ctx.case(stream, key=hx(m), nontrivial=True,
                 sample={"orig": hx(s), "mutated": hx(m), "index": i, "impl": impl[:40]})


def self_similar(seeds):
    """VALID frames that contain, as a prefix, another frame that would be valid if the length byte were smaller:
    for a shorter length L' the byte at index L' is the two's-complement checksum of bytes 1..L'-1 computed WITH L' as
    the length byte, and (for frames with a body check) the byte before it is a valid CRC-8 / additive check of the
    shortened body.  Corrupting just the length byte of such a frame must still be detected by the checksum over the
    WHOLE frame.  (The same idea as embedded start markers in the C04 streams: a container whose payload embeds a
    well-formed smaller container.)"""
    out = []
    for s in seeds:
        n = len(s)
        style = respgen.style_of(s)
        for lp in range(14, n - 3):
            f = bytearray(s)
            if f[10] not in (0xB0, 0xB1):
                f[lp - 1] = respgen.inner(bytes(f[10:lp - 1]), style if style != "none" else "crc")
            f[lp] = (~(lp + sum(f[2:lp])) + 1) & 0xFF
            g = respgen.make_frame(bytes(f[10:-2]), frame_type=f[9], style=style if style != "none" else "crc",
                                   proto=f[8], hdr=bytes(f[3:8]))
            if acgen.impl_construct(g)[0].startswith("err"):
                continue          # the crafted bytes made the full frame undecodable: not a valid response
            out.append((g, lp))
    return out


def length_byte_sweep(ctx, crafted):
    """every substitute of the length byte (and of the crafted positions) of the self-similar frames, without fix-up"""
    for g, lp in crafted:
        for v in range(256):
            if v == g[1]:
                continue
            m = bytearray(g)
            m[1] = v
            m = bytes(m)
            impl, _ = acgen.impl_construct(m)
            if impl != "err:invalid_frame":
                ctx.violate("length_byte", {"orig": hx(g), "frame": hx(m), "index": 1, "embedded_length": lp}, {"impl": impl[:80]},
                            "err:invalid_frame", "corrupted length byte was not detected by the frame checksum")
            if ctx.driver and v in (lp, lp - 1, lp + 1):
                rep = ctx.driver.ask(f"construct frame={hx(m)}")
                if acgen.canon_model_response(rep) != impl:
                    ctx.disagree("length_byte", {"frame": hx(m)}, impl, rep)
            ctx.case("length_byte", key=hx(m), sample={"orig": hx(g), "mutated": hx(m), "impl": impl[:40]} if v == lp else None)


def refresh_only_corrupted(ctx, rng, seeds, n):
    """a refresh (and the other operations) fed only rejected frames leaves to_dict() unchanged,
    offline, unsupported"""
    for _ in range(n):
        cfg = [("reqe", str(rng.randrange(2))), ("shum", str(rng.randrange(2))), ("power", "1"),
               ("temp", str(rng.choice([1700, 2250, 3000]))), ("mode", str(rng.randrange(1, 6))),
               ("sprops", "+".join(str(x) for x in rng.sample([9, 10, 24, 57, 66, 72, 227], rng.randrange(0, 3))))]
        replies = []
        for _ in range(4):
            fs = []
            for _ in range(rng.randrange(1, 4)):
                s = rng.choice(seeds)
                i = rng.randrange(1, len(s))
                m = bytearray(s)
                m[i] = (m[i] + rng.randrange(1, 256)) & 0xFF
                fs.append(bytes(m))
            replies.append(fs)
        # reference: the same object after a refresh that is answered by good frames, then corrupted ones
        pre_ops = [("op", "refresh", [[rng.choice(seeds)] for _ in range(4)])]
        st0, _, state0, _, dev0 = devrun.run_impl(cfg, 0, pre_ops)
        d0 = None
        if st0 == "ok":
            d0 = dict(dev0.to_dict())
        ops = pre_ops + [("op", "refresh", replies)]
        st, failed, state, sent, dev = devrun.compare(ctx, "refresh_corrupted", cfg, 0, ops)
        inp = {"line": devrun.line_for(cfg, 0, ops)}
        if st != "ok":
            ctx.violate("refresh_corrupted", inp, st, "ok", "refresh raised on corrupted frames")
        elif d0 is not None:
            d1 = dict(dev.to_dict())
            exp = dict(d0)
            exp["online"] = False
            exp["supported"] = False
            if d1 != exp:
                diff = {k: (str(d0[k]), str(d1[k])) for k in d1 if d1[k] != exp.get(k)}
                ctx.violate("refresh_corrupted", inp, diff, "state unchanged, online=False, supported=False",
                            "rejected frames changed the exposed state or left the device online/supported")
        ctx.case("refresh_corrupted", key=inp["line"], sample={"replies": [len(r) for r in replies], "status": st})


def run(ctx):
    rng = ctx.rng
    seeds = [s for s in respgen.seeds() if respgen.style_of(s) != "none" or respgen.kind_of(s).startswith("props")]
    ctx.notes.append(f"{len(seeds)} valid captured frames (state, capabilities, properties, energy, humidity)")
    by_kind = {}
    for s in seeds:
        by_kind.setdefault(respgen.kind_of(s), []).append(s)
    ctx.notes.append("kinds: " + ", ".join(f"{k}={len(v)}" for k, v in by_kind.items()))
    if ctx.tier == "quick":
        # two frames of each kind: all positions x all 255 substitutes; the rest: all positions x 16 substitutes
        full = [s for k, v in by_kind.items() for s in v[:2]]
        rest = [s for s in seeds if s not in full]
        sweep(ctx, full, lambda s: ((i, v) for i in range(1, len(s)) for v in range(256) if v != s[i]))
        sweep(ctx, rest, lambda s: ((i, (s[i] + d) & 0xFF) for i in range(1, len(s))
                                    for d in sorted(rng.sample(range(1, 256), 16))))
        refresh_only_corrupted(ctx, rng, seeds, 150)
        crafted = self_similar(seeds)
        ctx.notes.append(f"{len(crafted)} self-similar frames (valid frames embedding a valid shorter frame)")
        length_byte_sweep(ctx, crafted[::max(1, len(crafted) // 60)])
    else:
        length_byte_sweep(ctx, self_similar(seeds))
        sweep(ctx, seeds, lambda s: ((i, v) for i in range(1, len(s)) for v in range(256) if v != s[i]))
        refresh_only_corrupted(ctx, rng, seeds, 3000)
    ctx.coverage_exhaustive = True


def search(ctx):
    seeds = respgen.seeds()
    sweep(ctx, seeds, lambda s: ((i, v) for i in range(1, len(s)) for v in range(256) if v != s[i]))


def replay(ctx, case):
    inp = case["input"]
    if "frame" in inp:
        f = bytes.fromhex(inp["frame"])
        print("impl :", acgen.impl_construct(f)[0])
        if "orig" in inp:
            print("mechanism:", mechanism(bytes.fromhex(inp["orig"]), f))
        if ctx.driver:
            print("model:", ctx.driver.ask(f"construct frame={hx(f)}"))
    else:
        print("model:", ctx.driver.ask(inp["line"]) if ctx.driver else "n/a")
    return 0
