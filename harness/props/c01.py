"""C01 — end-to-end fidelity: an applied state reaches the device; the device's state is read back."""
import simdev
import specac
import vloop
from common import hx
from msmart.device.AC.device import AirConditioner as AC

IP = "1.2.3.4"
BOOLS = ["power", "eco", "turbo", "sleep", "f", "freeze", "follow", "pur"]
CAPS_UNSOLICITED = bytes.fromhex("aa1aac00000000000205b5031002010113020101220201000000a8b5") if False else None


def rb(rng, n):
    return bytes(rng.randrange(256) for _ in range(n))


def rand_state(rng):
    s = {k: rng.randrange(2) for k in BOOLS}
    s.update(mode=rng.randrange(1, 7), temp=rng.randrange(26, 88), fan=rng.choice([20, 40, 60, 80, 100, 102, rng.randrange(1, 103)]),
             swing=rng.choice([0, 3, 12, 15]), hum=rng.randrange(0, 101), aux=rng.randrange(3))
    return s


def set_attrs(ac, s, beep):
    ac.beep = beep
    ac.power_state = bool(s["power"])
    ac.operational_mode = AC.OperationalMode(s["mode"])
    ac.target_temperature = s["temp"] / 2
    ac.fan_speed = s["fan"]
    ac.swing_mode = AC.SwingMode(s["swing"])
    ac.eco, ac.turbo, ac.sleep, ac.fahrenheit = bool(s["eco"]), bool(s["turbo"]), bool(s["sleep"]), bool(s["f"])
    ac.freeze_protection, ac.follow_me, ac.purifier = bool(s["freeze"]), bool(s["follow"]), bool(s["pur"])
    ac.target_humidity = s["hum"]
    ac.aux_mode = AC.AuxHeatMode(s["aux"])


def read_attrs(ac):
    t = ac.target_temperature
    return dict(power=int(ac.power_state), mode=int(ac.operational_mode), temp=round(t * 2) if t is not None else None,
                fan=int(ac.fan_speed), swing=int(ac.swing_mode), eco=int(ac.eco), turbo=int(ac.turbo), sleep=int(ac.sleep),
                f=int(ac.fahrenheit), freeze=int(bool(ac.freeze_protection)), follow=int(ac.follow_me), pur=int(ac.purifier),
                hum=ac.target_humidity, aux=int(ac.aux_mode))


def segmentation(rng, kind, total):
    if kind == "whole" or total < 2:
        return []
    if kind == "bytewise":
        return "bytewise"
    k = rng.randrange(1, min(total - 1, 12) + 1)
    return sorted(rng.sample(range(1, total), k))


def scenario(ctx, stream, rng, version, op, seg_kind, noise):
    """op: 'apply' (requested state must reach the device) or 'refresh' (device state must be reported)"""
    token, key = rb(rng, 64), rb(rng, 32)
    device_id = rng.choice([0, 1, 2 ** 48 - 1, rng.randrange(2 ** 48)])
    dev_state = rand_state(rng)
    want = rand_state(rng)
    display = rng.random() < 0.5
    unsolicited = bytes.fromhex("aa1aac00000000000205b50310020101130201012202010000") if False else None

    def extra(frame):
        # duplicated state responses, unsolicited capability-like frames (frame type 5), unknown ids
        if not noise:
            return [], []
        before, after = [], []
        import respgen
        junk = [respgen.make_frame(bytes([0xB5, 1, 0x12, 0x02, 1, 1, 0, 0]), frame_type=5),
                respgen.make_frame(bytes([0xA1] + [rng.randrange(256) for _ in range(12)]), frame_type=4),
                respgen.make_frame(bytes([0xB0, 0, 0]), frame_type=2)]
        for _ in range(rng.randrange(0, 3)):
            (before if rng.random() < 0.5 else after).append(rng.choice(junk))
        return before, after
    model = specac.SpecAC(ctx, state=dev_state, display=display, style=rng.choice(["crc", "sum"]), extra_frames=extra)
    if noise:
        orig_call = model.__call__

        def dup(frame):
            out = orig_call(frame)
            if out and rng.random() < 0.6:
                status = [f for f in out if f[10] == 0xC0]
                if status:
                    out = out + [status[-1]] * rng.randrange(1, 3)
            return out
        responder = dup
    else:
        responder = model
    dev = simdev.SimDevice(version=version, device_id=device_id, token=token if version == 3 else None,
                           key=key if version == 3 else None, responder=responder)
    res = {}

    async def go(loop, net):
        net.add_tcp(IP, 6444, dev)
        ac = AC(ip=IP, port=6444, device_id=device_id)
        if version == 3:
            await ac.authenticate(token.hex() if rng.random() < 0.5 else token, key)
        # the reply is delivered in chosen segments
        orig_proper = dev._proper_reply if hasattr(dev, "_proper_reply") else None

        def seg_script():
            return ("segments", None)
        if op == "apply":
            set_attrs(ac, want, beep=rng.random() < 0.5)
            probe_len = None
            dev.script = [("custom", lambda d, tr, info: deliver(d, tr, info))]
            await ac.apply()
            res["device"] = dict(model.state)
            res["client"] = read_attrs(ac)
        else:
            dev.script = [("custom", lambda d, tr, info: deliver(d, tr, info))]
            await ac.refresh()
            res["client"] = read_attrs(ac)
            res["online"] = ac.online
            res["display"] = ac.display_on
            # a second, fresh client instance reports the same
            ac2 = AC(ip=IP, port=6444, device_id=device_id)
            if version == 3:
                await ac2.authenticate(token, key)
            dev.script = [("custom", lambda d, tr, info: deliver(d, tr, info))]
            res["n_mech_first"] = len(res.get("mechanisms", []))
            await ac2.refresh()
            res["client2"] = read_attrs(ac2)

    def deliver(d, tr, info):
        conn = d.conns[tr.cid]
        frames = responder(info["frame"]) if info.get("frame") else []
        if not frames:
            return
        parts = [d.wrap(conn, info.get("counter", 0), [f]) for f in frames]
        full = b"".join(parts)
        cuts = segmentation(rng, seg_kind, len(full))
        if cuts == "bytewise":
            cuts = list(range(1, len(full)))
        pos = [0] + cuts + [len(full)]
        # which known transport mechanism (if any) keeps the state response out of THIS exchange
        ends = []
        o = 0
        for p_ in parts:
            o += len(p_)
            ends.append(o)

        def seg_of(byte_index):
            return max(i for i in range(len(pos) - 1) if pos[i] <= byte_index)
        j = next((i for i, f in enumerate(frames) if f[10] == 0xC0), None)
        mech = None
        if j is not None and info.get("frame", b"")[10:11] == b"\x41":
            if version == 2:
                if cuts:
                    mech = "v2-no-reassembly"
                elif j > 0:
                    mech = "v2-only-first-packet-of-segment"
            elif j > 0 and seg_of(ends[j] - 1) > seg_of(ends[0] - 1):
                mech = "exchange-ends-at-first-packet"
        res.setdefault("mechanisms", []).append(mech)
        tr.deliver_segments(0.05, [full[a:b] for a, b in zip(pos, pos[1:])], gap=0.001)
    try:
        vloop.run(go)
    except Exception as e:  # noqa
        res["exc"] = type(e).__name__ + ": " + str(e)[:80]
    inp = {"version": version, "op": op, "segmentation": seg_kind, "noise": noise, "device_id": device_id,
           "requested": want if op == "apply" else None, "device_state": dev_state}
    if "exc" in res:
        ctx.violate(stream, inp, res["exc"], "completed", "end-to-end exchange failed")
    elif op == "apply":
        if res["device"] != want:
            ctx.violate(stream, inp, {k: res["device"][k] for k in want if res["device"][k] != want[k]},
                        {k: want[k] for k in want if res["device"][k] != want[k]},
                        "the state the device ended up in is not the state the user applied")
    else:
        for who in ("client", "client2"):
            got = res.get(who)
            if got != dev_state or not res.get("online") or res.get("display") != display:
                allm = res.get("mechanisms", [])
                k0 = res.get("n_mech_first", len(allm))
                mechs = [m for m in (allm[:k0] if who == "client" else allm[k0:]) if m]
                ctx.violate(stream, inp, {"who": who, "diff": {k: got[k] for k in dev_state if got[k] != dev_state[k]},
                                          "online": res.get("online"), "display": res.get("display"),
                                          "mechanism": mechs[0] if mechs else None},
                            {"display": display}, "refresh does not report the state the device is in")
                break
    ctx.count(f"{stream}:v{version}:{op}:{seg_kind}:{'noise' if noise else 'clean'}")
    ctx.case(stream, key=(version, op, seg_kind, noise, str(want), str(dev_state)), sample={k: inp[k] for k in ("version", "op", "segmentation", "noise")})


def stale_scenario(ctx, stream, rng, version):
    """an OLDER state frame that the device pushed while the connection was idle sits in the receive queue when
    the next exchange starts: the exchange's own (newer) response must win, and a later single-attribute apply
    must not write the stale values back"""
    import asyncio
    token, key = rb(rng, 64), rb(rng, 32)
    device_id = rng.randrange(2 ** 48)
    old_state, cur_state = rand_state(rng), rand_state(rng)
    model = specac.SpecAC(ctx, state=cur_state, display=True, style=rng.choice(["crc", "sum"]))
    dev = simdev.SimDevice(version=version, device_id=device_id, token=token if version == 3 else None,
                           key=key if version == 3 else None, responder=model)
    res = {}

    async def go(loop, net):
        net.add_tcp(IP, 6444, dev)
        ac = AC(ip=IP, port=6444, device_id=device_id)
        if version == 3:
            await ac.authenticate(token, key)
        await ac.refresh()
        res["first"] = read_attrs(ac)
        # the device pushes a status frame that carries an OLDER state (e.g. a delayed notification)
        saved = dict(model.state)
        model.state.update(old_state)
        stale = model.status_frame(msgid=rng.randrange(256), frame_type=rng.choice([3, 4, 5]))
        model.state.clear(); model.state.update(saved)
        cid = max(dev.conns)
        dev.unsolicited(cid, [stale], delay=0.01, counter=rng.randrange(4096))
        await asyncio.sleep(0.2)
        await ac.refresh()
        res["client"] = read_attrs(ac)
        # now the user changes one attribute only
        ac.power_state = not ac.power_state
        await ac.apply()
        res["device"] = dict(model.state)
    try:
        vloop.run(go)
    except Exception as e:  # noqa
        res["exc"] = type(e).__name__ + ": " + str(e)[:80]
    inp = {"version": version, "op": "refresh-after-stale-push", "device_state": cur_state, "stale_state": old_state}
    if "exc" in res:
        ctx.violate(stream, inp, res["exc"], "completed", "end-to-end exchange failed")
    else:
        if res["client"] != cur_state:
            ctx.violate(stream, inp, {"diff": {k: res["client"][k] for k in cur_state if res["client"][k] != cur_state[k]}},
                        "the device's current state", "refresh reports an older pushed state instead of the state the device is in")
        want = dict(cur_state); want["power"] = 1 - cur_state["power"]
        if res["device"] != want:
            ctx.violate(stream, inp, {k: res["device"][k] for k in want if res["device"][k] != want[k]},
                        {k: want[k] for k in want if res["device"][k] != want[k]},
                        "a single-attribute apply after a stale push changed other settings of the device")
    ctx.count(f"{stream}:v{version}")
    ctx.case(stream, key=(version, str(old_state), str(cur_state)), sample={"version": version, "op": inp["op"]})


class _Forever(list):
    """a device script that never runs out: every request is answered with the same action"""

    def __init__(self, action):
        super().__init__([action])
        self.action = action

    def pop(self, i=0):
        return self.action


def segmented_session(ctx, stream, rng, cuts):
    """a V3 device whose EVERY reply of the session — the handshake reply included — reaches the client in the same
    TCP segmentation (bytewise, a 1-byte first segment, cuts at fixed offsets, ...): authenticate, apply, refresh must
    work exactly as with whole packets (a stream may be cut anywhere; V2 has no reassembly, finding D10)"""
    token, key = rb(rng, 64), rb(rng, 32)
    device_id = rng.randrange(2 ** 48)
    want = rand_state(rng)
    model = specac.SpecAC(ctx, state=rand_state(rng), display=True, style=rng.choice(["crc", "sum"]))
    dev = simdev.SimDevice(version=3, device_id=device_id, token=token, key=key, responder=model)
    dev.script = _Forever(("segments", cuts, 0.05, 0.001))
    res = {}

    async def go(loop, net):
        net.add_tcp(IP, 6444, dev)
        ac = AC(ip=IP, port=6444, device_id=device_id)
        await ac.authenticate(token, key)
        set_attrs(ac, want, beep=False)
        await ac.apply()
        res["device"] = dict(model.state)
        ac2 = AC(ip=IP, port=6444, device_id=device_id)
        await ac2.authenticate(token, key)
        await ac2.refresh()
        res["client"] = read_attrs(ac2)
        res["online"] = ac2.online
        res["requests"] = len([1 for e in dev.log if e.get("kind") in ("hs", "data")])
    try:
        vloop.run(go)
    except Exception as e:  # noqa
        res["exc"] = type(e).__name__ + ": " + str(e)[:80]
    inp = {"version": 3, "op": "segmented-session", "cuts": cuts if isinstance(cuts, str) else list(cuts), "requested": want}
    if "exc" in res:
        ctx.violate(stream, inp, res["exc"], "completed", "session with segmented replies failed")
    elif res["device"] != want:
        ctx.violate(stream, inp, {k: res["device"][k] for k in want if res["device"][k] != want[k]},
                    {k: want[k] for k in want if res["device"][k] != want[k]},
                    "the state the device ended up in is not the state the user applied")
    elif res["client"] != want or not res["online"]:
        ctx.violate(stream, inp, {"diff": {k: res["client"][k] for k in want if res["client"][k] != want[k]}, "online": res["online"]},
                    "the device's state, online", "refresh does not report the state the device is in")
    ctx.count(f"{stream}:cuts={cuts if isinstance(cuts, str) else len(cuts)}")
    ctx.case(stream, key=(str(cuts), str(want)), sample={"cuts": inp["cuts"]})


def _pred(name):
    return lambda v: isinstance(v.get("observed"), dict) and v["observed"].get("mechanism") == name


KNOWN = {
    "D10-v2-no-reassembly": lambda v: isinstance(v.get("observed"), dict) and v["observed"].get("mechanism") in (
        "v2-no-reassembly", "v2-only-first-packet-of-segment"),
    "D11-exchange-ends-at-first-packet": _pred("exchange-ends-at-first-packet"),
}


def run(ctx):
    rng = ctx.rng
    if not ctx.driver:
        return
    n = 12 if ctx.tier == "quick" else 250
    for version in (2, 3):
        for op in ("apply", "refresh"):
            for seg in ("whole", "cuts", "bytewise"):
                for noise in (False, True):
                    for _ in range(n):
                        scenario(ctx, "fullstack", rng, version, op, seg, noise)
    for version in (2, 3):
        for _ in range(10 if ctx.tier == "quick" else 200):
            stale_scenario(ctx, "stale_push", rng, version)
    fixed = ["bytewise", [1], [2], [1, 2], [5], [6], [7], [8], [1, 6], [1, 8]]
    for cuts in fixed:
        segmented_session(ctx, "segmented_session", rng, cuts)
    for _ in range(10 if ctx.tier == "quick" else 300):
        segmented_session(ctx, "segmented_session", rng, sorted(rng.sample(range(1, 72), rng.randrange(1, 6))))


def search(ctx):
    run(ctx)


def replay(ctx, case):
    print(case["input"], "->", case["observed"], "expected", case["expected"])
    return 0
