"""C05 — V3 encrypted packet codec: interoperable for every length, tamper-evident."""
import lanimpl
from common import hx, lan_of


def rb(rng, n):
    return bytes(rng.randrange(256) for _ in range(n))


def enc_one(ctx, rng, stream, key, ctr, data):
    out, pad = lanimpl.v3_enc_request(key, ctr, data)
    inp = {"key": hx(key), "ctr": ctr, "data": hx(data)}
    if out.startswith("err"):
        ctx.violate(stream, inp, out, "a packet", "encrypted request could not be encoded")
        return
    if ctx.driver:
        m = ctx.driver.ask(f"v3_enc_request key={hx(key)} ctr={ctr} data={hx(data)} pad={hx(pad)}")
        if m != out:
            ctx.disagree(stream, inp, out, m)
        dec = ctx.driver.ask(f"spec_v3_decode key={hx(key)} packet={out}")
        want = f"ok type=6 ctr={ctr} data={hx(data)}"
        if dec != want:
            ctx.violate(stream, inp, {"packet": out[:80], "spec_decode": dec}, want,
                        "independent decoder does not recover counter and payload (or header fields inconsistent)")
    ctx.count(f"{stream}:pad={len(pad)}")
    ctx.case(stream, key=(hx(key), ctr, hx(data)), sample={"len": len(data), "ctr": ctr, "pad": len(pad)})


def marked_payload(rng, key, ctr, target, block, n):
    """an n-byte payload (n >= 14 + 16*block) whose encrypted response has `target` at the start of cipher block `block`
    (AES-CBC, zero IV, plaintext = 2-byte big-endian counter + payload + padding)"""
    from Crypto.Cipher import AES
    ecb = AES.new(key, AES.MODE_ECB)
    data = bytearray(rb(rng, n))
    plain0 = ctr.to_bytes(2, "big") + bytes(data[:14])
    prev = bytes(16) if block == 0 else ecb.encrypt(plain0)
    off = 0 if block == 0 else 14           # payload offset of the searched plaintext block's free bytes
    lo = 2 if block == 0 else 0             # block 0 starts with the counter
    base = bytearray(plain0 if block == 0 else data[14:30])
    N = 1 << 18
    blocks = bytearray()
    for i in range(N):
        base[lo:lo + 3] = i.to_bytes(3, "big")
        blocks += bytes(a ^ b for a, b in zip(base, prev)) if block else base
    ct = ecb.encrypt(bytes(blocks))
    j = ct.find(target)
    while j != -1 and j % 16:
        j = ct.find(target, j + 1)
    if j == -1:
        return None
    data[off:off + 3] = (j // 16).to_bytes(3, "big")
    return bytes(data)


def dec_one(ctx, rng, stream, key, ctr, data):
    pad = rb(rng, (16 - (len(data) + 2) % 16) % 16)
    pkt = ctx.driver.ask(f"spec_v3_encode key={hx(key)} type=3 ctr={ctr} data={hx(data)} pad={hx(pad)}")
    out = lanimpl.v3_process(key, bytes.fromhex(pkt))
    inp = {"key": hx(key), "ctr": ctr, "data": hx(data), "packet": pkt}
    m = ctx.driver.ask(f"v3_process key={hx(key)} packet={pkt}")
    if m != out:
        ctx.disagree(stream, inp, out, m)
    if out != hx(data):
        ctx.violate(stream, inp, out, hx(data), "encrypted response of the independent encoder not decoded to the payload sent")
    ctx.count(f"{stream}:pad={len(pad)}")
    ctx.case(stream, key=pkt, sample={"len": len(data), "pad": len(pad)})
    return bytes.fromhex(pkt)


def tamper(ctx, rng, key, data):
    pad = rb(rng, (16 - (len(data) + 2) % 16) % 16)
    pkt = bytes.fromhex(ctx.driver.ask(f"spec_v3_encode key={hx(key)} type=3 ctr={rng.randrange(4096)} data={hx(data)} pad={hx(pad)}"))
    lines, meta = [], []
    for i in range(len(pkt)):
        for b in range(8):
            m = bytearray(pkt)
            m[i] ^= 1 << b
            out = lanimpl.v3_process(key, bytes(m))
            inp = {"key": hx(key), "packet": hx(m), "note": f"bit {b} of byte {i}", "data": hx(data)}
            # property: any alteration of any bit of an encrypted response is rejected with a protocol error
            # (a flip of the type nibble 3 -> 1 turns it into a "handshake response"; at the level of
            #  _process_packet that returns bytes which LAN._read then rejects as a V2 packet — covered
            #  by stream type_flip below)
            if i == 5 and b < 4 and out != "err:protocol":
                stream = "type_flip"
                import lanimpl as L
                inner = L.v2_decode(bytes.fromhex(out)) if not out.startswith("err") else out
                if inner != "err:protocol":
                    ctx.violate(stream, inp, {"process": out[:40], "v2": inner}, "err:protocol",
                                "type-nibble flip of an encrypted response accepted")
            else:
                stream = "bitflip"
                if out != "err:protocol":
                    ctx.violate(stream, inp, out, "err:protocol", "altered encrypted response not rejected with a protocol error")
            lines.append(f"v3_process key={hx(key)} packet={hx(m)}")
            meta.append((stream, inp, out))
            ctx.case(stream, key=hx(m), sample={"note": inp["note"], "impl": out[:30]})
    for (stream, inp, out), rep in zip(meta, ctx.driver.batch(lines)):
        if rep != out:
            ctx.disagree(stream, inp, out, rep)


def tamper_after_genuine(ctx, rng, key, datas, thorough):
    """HISTORY on one protocol object: genuine responses are accepted first, then altered copies of them arrive on the same
    connection (a replayed / corrupted retransmission).  What was accepted before must not make an altered packet
    acceptable: every altered copy is a protocol error, every genuine one still decodes to its payload."""
    pkts = []
    for data in datas:
        pad = rb(rng, (16 - (len(data) + 2) % 16) % 16)
        pkts.append(bytes.fromhex(ctx.driver.ask(f"spec_v3_encode key={hx(key)} type=3 ctr={rng.randrange(4096)} data={hx(data)} pad={hx(pad)}")))
    for which, pkt in enumerate(pkts):
        L = len(pkt)
        positions = range(L) if thorough else sorted(set(range(0, 8)) | set(rng.sample(range(L), min(L, 12))) | {L - 33, L - 32, L - 1})
        for i in positions:
            for b in (range(8) if thorough else [rng.randrange(8)]):
                if i == 5 and b < 4:
                    continue               # the type nibble: another packet type, covered by `type_flip`
                m = bytearray(pkt)
                m[i] ^= 1 << b
                seq = pkts + [bytes(m)] + [pkt]
                out = lanimpl.v3_process_seq(key, seq)
                want = [hx(d) for d in datas] + ["err:protocol", hx(datas[which])]
                inp = {"key": hx(key), "sequence": [hx(x) for x in seq], "note": f"after {len(pkts)} genuine: bit {b} of byte {i} of packet {which}"}
                if out != want:
                    ctx.violate("tamper_after_genuine", inp, out, want,
                                "an altered copy of an encrypted response is not rejected once the genuine one has been accepted on the same connection")
                ctx.case("tamper_after_genuine", key=(hx(bytes(m)), which), sample={"genuine": len(pkts), "byte": i})


def session(ctx, rng, n_exchanges):
    """SEVERAL encrypted requests and responses on ONE connection (one protocol object, one session key): every
    request must decode at the independent device implementation (and, packet by packet, under the Spec decoder) to
    the frame and the running counter, and every authentic response must be accepted — nothing of one packet's
    encryption may leak into the next."""
    import simdev
    import vloop
    from msmart.device.AC.command import GetStateCommand
    from msmart.device.AC.device import AirConditioner as AC
    token, key = rb(rng, 64), rb(rng, 32)
    frames = [rb(rng, rng.choice([1, 13, 14, 15, 16, 30, 31, 32, 33, 60])) for _ in range(n_exchanges)]
    replies = [[rb(rng, rng.choice([1, 14, 15, 16, 29, 30, 31, 47, 80])) for _ in range(rng.randrange(1, 3))] for _ in frames]
    dev = simdev.SimDevice(version=3, device_id=7, token=token, key=key)
    res = {"got": []}

    async def go(loop, net):
        net.add_tcp("1.2.3.4", 6444, dev)
        ac = AC(ip="1.2.3.4", port=6444, device_id=7)
        await ac.authenticate(token, key)
        for f, r in zip(frames, replies):
            dev.responder = lambda _f, r=r: list(r)
            try:
                res["got"].append(await lan_of(ac).send(f))
            except Exception as e:  # noqa
                res["got"].append(lanimpl.canon_exc(e))
        res["session_key"] = dev.conns[max(dev.conns)]["session_key"]
    try:
        vloop.run(go)
    except Exception as e:  # noqa
        res["exc"] = lanimpl.canon_exc(e)
    inp = {"key": hx(key), "frames": [hx(f) for f in frames], "replies": [[hx(x) for x in r] for r in replies]}
    data = [e for e in dev.log if e["kind"] == "data"]
    if "exc" in res:
        ctx.violate("session", inp, res["exc"], "a session", "authentication failed")
    else:
        for i, (f, r) in enumerate(zip(frames, replies)):
            got = res["got"][i]
            if got != r:
                ctx.violate("session", {**inp, "exchange": i}, got if isinstance(got, str) else [hx(x) for x in got], [hx(x) for x in r],
                            "authentic encrypted responses of exchange %d on the connection not accepted / not decoded to the payload" % i)
                break
        if len(data) != len(frames):
            ctx.violate("session", inp, {"data_packets": len(data)}, {"data_packets": len(frames)},
                        "number of encrypted requests on the wire differs from the number of exchanges")
        for i, e in enumerate(data[:len(frames)]):
            want_ctr = i + 1          # the handshake used counter 0
            if not (e.get("tag_ok") and e.get("decoded") and e.get("frame") == frames[i] and e.get("counter") == want_ctr):
                ctx.violate("session", {**inp, "request": i}, {k: (hx(v) if isinstance(v, bytes) else v) for k, v in e.items() if k in ("tag_ok", "decoded", "counter", "error", "frame")},
                            {"tag_ok": True, "decoded": True, "counter": want_ctr, "frame": hx(frames[i])},
                            "encrypted request %d of the connection does not decode at the device to frame and counter" % i)
                break
            if ctx.driver and res.get("session_key"):
                dec = ctx.driver.ask(f"spec_v3_decode key={hx(res['session_key'])} packet={hx(e['raw'])}")
                if not dec.startswith(f"ok type=6 ctr={want_ctr} "):
                    ctx.violate("session", {**inp, "request": i}, dec, f"ok type=6 ctr={want_ctr} data=<V2 packet>",
                                "independent decoder does not recover request %d of the connection" % i)
                    break
    ctx.count(f"session:n={n_exchanges}")
    ctx.case("session", key=(hx(key), tuple(inp["frames"])), sample={"exchanges": n_exchanges})


def run(ctx):
    rng = ctx.rng
    thorough = ctx.tier == "thorough"
    for n in range(0, 301):
        key = rb(rng, 32)
        for ctr in ([0, 4095, rng.randrange(4096)] if not thorough else [0, 1, 255, 256, 4095] + [rng.randrange(4096) for _ in range(5)]):
            enc_one(ctx, rng, "encode", key, ctr, rb(rng, n))
        if ctx.driver:
            dec_one(ctx, rng, "decode", key, rng.choice([0, 1, 255, 256, 4095, 65535]), rb(rng, n))
    # payloads with STRUCTURE: what a device really sends inside an encrypted response is a V2 packet (5a5a marker, LE length
    # field at offset 4); the codec must return the payload untouched whatever that inner length field says
    if ctx.driver:
        import msmart.lan as lan
        for n in list(range(0, 40)) + [64, 100, 200]:
            inner = lan._Packet.encode(rng.randrange(2 ** 48), rb(rng, n))
            key = rb(rng, 32)
            dec_one(ctx, rng, "decode_v2_payload", key, rng.randrange(4096), inner)
            for lf in (0, 1, 6, 39, 40, len(inner) - 17, len(inner) - 1, len(inner) + 1, 0xFFFF):
                m = bytearray(inner)
                m[4:6] = (lf & 0xFFFF).to_bytes(2, "little")
                dec_one(ctx, rng, "decode_v2_like_payload", key, rng.randrange(4096), bytes(m))
            dec_one(ctx, rng, "decode_v2_like_payload", key, 0, b"\x5a\x5a" + rb(rng, n))
            dec_one(ctx, rng, "decode_v2_like_payload", key, 0, b"\x83\x70" + rb(rng, n))
            enc_one(ctx, rng, "encode_v2_payload", key, rng.randrange(4096), inner)
    # GENUINE responses whose ciphertext happens to begin (first or second cipher block) with bytes that mean something to
    # some layer: the V3 start marker 83 70, the V2 marker 5a 5a, the magic 20, zeros.  One in 65536 responses does; they are
    # found by searching the plaintext space with the cipher primitive, then encoded by the independent Spec encoder.
    if ctx.driver:
        for target in ((b"\x83\x70", b"\x5a\x5a") if not thorough else (b"\x83\x70", b"\x5a\x5a", b"\x83\x83", b"\x20\x03", b"\x00\x00", b"\xff\xff", b"\x70\x83")):
            for block in (0, 1):
                for _ in range(1 if not thorough else 4):
                    key = rb(rng, 32)
                    ctr = rng.choice([0, 1, 255, 4095, rng.randrange(65536)])
                    data = marked_payload(rng, key, ctr, target, block, rng.choice([14, 20, 30, 46, 77]) + 16 * block)
                    if data is None:
                        ctx.count("marker_in_ciphertext:not-found")
                        continue
                    pkt = dec_one(ctx, rng, "marker_in_ciphertext", key, ctr, data)
                    ctx.count("marker_in_ciphertext:" + ("hit" if pkt[6 + 16 * block:8 + 16 * block] == target else "miss"))
    for _ in range(8 if not thorough else 100):
        session(ctx, rng, rng.randrange(2, 7))
    if thorough:
        key = rb(rng, 32)
        for ctr in range(4096):
            enc_one(ctx, rng, "all_counters", key, ctr, rb(rng, rng.randrange(0, 40)))
    if ctx.driver:
        for n in ([0, 13, 14, 15, 30, 104] if not thorough else [0, 1, 13, 14, 15, 16, 29, 30, 31, 104, 200]):
            tamper(ctx, rng, rb(rng, 32), rb(rng, n))
        for lens in ([(14,), (30, 5)] if not thorough else [(0,), (14,), (30, 5), (13, 13, 40)]):
            tamper_after_genuine(ctx, rng, rb(rng, 32), [rb(rng, n) for n in lens], thorough)


def search(ctx):
    run(ctx)


def replay(ctx, case):
    inp = case["input"]
    key = bytes.fromhex(inp["key"])
    if "packet" in inp:
        print("impl :", lanimpl.v3_process(key, bytes.fromhex(inp["packet"])))
        if ctx.driver:
            print("model:", ctx.driver.ask(f"v3_process key={inp['key']} packet={inp['packet']}"))
    print("expected:", case.get("expected"))
    return 0
