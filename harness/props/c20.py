"""C20 — CLI control applies the documented meaning of each setting=value pair."""
import ast
import logging
import sys

import simdev
import specac
import vloop
from common import hx
from msmart.device.AC.device import AirConditioner as AC
from msmart.utils import MideaIntEnum

IP, DEV_ID = "1.2.3.4", 123456

# setting name -> (kind, device state key or None, enum class)
ENUMS = {"operational_mode": ("mode", AC.OperationalMode), "fan_speed": ("fan", AC.FanSpeed), "swing_mode": ("swing", AC.SwingMode),
         "aux_mode": ("aux", AC.AuxHeatMode)}
BOOLS = {"power_state": "power", "eco": "eco", "turbo": "turbo", "sleep": "sleep", "fahrenheit": "f",
         "freeze_protection": "freeze", "follow_me": "follow", "purifier": "pur", "beep": None}
NUMS = {"target_temperature": ("temp", float), "target_humidity": ("hum", int)}
PROP_SETTINGS = ["horizontal_swing_angle", "vertical_swing_angle", "rate_select", "breeze_away", "breeze_mild", "breezeless", "ieco"]


def run_cli(ctx, settings, dev_state=None, display=True, extra_args=(), caps_frame=None):
    import msmart.cli as cli
    model = specac.SpecAC(ctx, state=dev_state, display=display, caps_frame=caps_frame)
    dev = simdev.SimDevice(2, device_id=DEV_ID, responder=model)
    policy = vloop.install_policy(lambda loop, net: net.add_tcp(IP, 6444, dev))
    argv, sys.argv = sys.argv, ["msmart-ng", "control", IP, "--id", str(DEV_ID)] + list(extra_args) + list(settings)
    code = None
    try:
        try:
            cli.main()
            code = "no-exit"
        except SystemExit as e:
            code = e.code if isinstance(e.code, int) else (0 if e.code is None else 1)
        except BaseException as e:  # noqa  an uncaught exception terminates the interpreter with status 1
            code = "exc:" + type(e).__name__
    finally:
        sys.argv = argv
        vloop.uninstall_policy()
        logging.root.handlers.clear()
        logging.disable(logging.CRITICAL)
    net = policy.last[1] if policy.last else None
    contacted = bool(net and (net.connections or net.connect_attempts))
    return code, model, dev, contacted


def casing(rng, s):
    return "".join(c.upper() if rng.random() < 0.5 else c.lower() for c in s)


def model_convert(ctx, name, value):
    """the Lean model of the conversion; literal_eval outcome supplied as input (as the XML bit in C17)"""
    def lit(v):
        try:
            x = ast.literal_eval(v)
        except ValueError:
            return "err:ValueError"
        except SyntaxError:
            return "err:SyntaxError"
        except Exception as e:  # noqa
            return "err:" + type(e).__name__
        if isinstance(x, bool):
            return f"bool:{int(x)}"
        if isinstance(x, int):
            return f"int:{x}"
        if isinstance(x, float):
            c = round(x * 100)
            return f"float:{c}" if abs(x * 100 - c) < 1e-6 else "other:float"
        if isinstance(x, str):
            return "str:" + (x.encode().hex() or "-")
        return "other:" + type(x).__name__ + (":truthy" if x else ":falsy")
    return ctx.driver.ask(f"cli_convert name={name} raw={value.encode().hex() or '-'} lit={lit(value)} litcap={lit(value.capitalize())}")


def expect_state(base, changes):
    s = dict(base)
    s.update(changes)
    return s


def check_valid(ctx, rng, stream, pairs, changes, dev_state, display=True, want_display=None, extra_args=(), caps_frame=None):
    """pairs: list of 'name=value'; changes: expected device state changes"""
    # every requested value is a REAL change: the unit starts from a state that differs in each requested field
    # (otherwise a setting that is silently dropped would go unnoticed whenever the unit happened to be there already)
    dev_state = dict(dev_state)
    alt = {"power": [0, 1], "mode": [1, 2, 3, 4, 5], "temp": [40, 44, 50], "fan": [20, 40, 60, 80, 102], "swing": [0, 3, 12, 15],
           "hum": [35, 45, 60], "aux": [0, 1, 2]}
    for k, v in changes.items():
        if dev_state.get(k) == v:
            dev_state[k] = next(x for x in alt.get(k, [0, 1]) if x != v)
    code, model, dev, contacted = run_cli(ctx, pairs, dev_state=dev_state, display=display, extra_args=extra_args, caps_frame=caps_frame)
    inp = {"settings": pairs, "device_state_before": dev_state}
    if extra_args:
        inp["options"] = list(extra_args)
    before = specac.SpecAC(ctx, state=dev_state).state
    want = expect_state(before, changes)
    got = model.state
    if code != 0:
        ctx.violate(stream, inp, {"exit": code}, {"exit": 0}, "valid settings rejected / control failed")
    elif got != want:
        ctx.violate(stream, inp, {k: got[k] for k in got if got[k] != want[k]}, {k: want[k] for k in got if got[k] != want[k]},
                    "device state after control is not 'requested settings applied, everything else as reported'")
    if want_display is not None and code == 0 and model.display != want_display:
        ctx.violate(stream, inp, {"display": model.display}, {"display": want_display}, "display not toggled exactly when it differs")
    if ctx.driver:
        for p in pairs:
            n, v = p.split("=", 1)
            m = model_convert(ctx, n, v)
            if not m.startswith("accept"):
                ctx.disagree(stream, {"setting": p}, "accepted (exit 0)" if code == 0 else f"exit {code}", m)
    ctx.count(f"{stream}:exit={code}")
    ctx.case(stream, key=tuple(pairs) + (str(dev_state),), sample={"settings": pairs, "exit": code})


def check_invalid(ctx, rng, stream, pairs):
    code, model, dev, contacted = run_cli(ctx, pairs)
    inp = {"settings": pairs}
    if code in (0, "no-exit"):
        ctx.violate(stream, inp, {"exit": code}, "non-zero exit", "invalid setting accepted")
    if contacted or dev.log:
        ctx.violate(stream, inp, {"connections": contacted, "received": len(dev.log)}, "nothing sent to the device",
                    "device contacted before an invalid setting was rejected")
    if ctx.driver:
        ms = [model_convert(ctx, *p.split("=", 1)) for p in pairs if "=" in p]
        if ms and all(m.startswith("accept") for m in ms):
            ctx.disagree(stream, inp, f"exit {code}", ms)
    ctx.count(f"{stream}:exit={code}")
    ctx.case(stream, key=tuple(pairs), sample={"settings": pairs, "exit": code})


def prop_writes(model):
    """{property id: value bytes} of every 0xB0 write the simulated unit received"""
    out = []
    for kind, frame in model.received:
        if kind != "props":
            continue
        body = bytes(frame)[10:-3]
        if body[0] != 0xB0:
            continue
        n, i, recs = body[1], 2, {}
        for _ in range(n):
            if i + 3 > len(body):
                break
            pid, ln = body[i] | (body[i + 1] << 8), body[i + 2]
            recs[pid] = bytes(body[i + 3:i + 3 + ln])
            i += 3 + ln
        out.append(recs)
    return out


def check_prop(ctx, rng, stream, pair, pid, want_value):
    """a property-protocol setting given on the command line reaches the unit as a 0xB0 write of that property with that
    value - whatever the value is (the defaults / 'off' members included: the CLI cannot know what the unit has now)"""
    code, model, dev, contacted = run_cli(ctx, [pair], dev_state=rand_dev_state(rng))
    inp = {"settings": [pair]}
    writes = prop_writes(model)
    got = [w[pid] for w in writes if pid in w]
    if code != 0:
        ctx.violate(stream, inp, {"exit": code}, {"exit": 0}, "valid setting rejected / control failed")
    elif len(got) != 1 or got[0][:len(want_value)] != want_value:
        ctx.violate(stream, inp, {"writes_of_property": [hx(g) for g in got], "all_writes": [{hex(k): hx(v) for k, v in w.items()} for w in writes]},
                    {"property": hex(pid), "value": hx(want_value)}, "requested property setting was not written to the unit exactly once")
    ctx.count(f"{stream}:exit={code}")
    ctx.case(stream, key=(pair,), sample={"setting": pair, "exit": code, "writes": len(writes)})


def rand_dev_state(rng):
    return dict(power=rng.randrange(2), mode=rng.randrange(1, 7), temp=rng.randrange(34, 61), fan=rng.choice([20, 40, 60, 80, 102, 33]),
                swing=rng.choice([0, 3, 12, 15]), eco=rng.randrange(2), turbo=rng.randrange(2), sleep=rng.randrange(2), f=rng.randrange(2),
                freeze=rng.randrange(2), follow=rng.randrange(2), pur=rng.randrange(2), hum=rng.randrange(30, 70), aux=rng.randrange(3))


def run(ctx):
    rng = ctx.rng
    if not ctx.driver:
        return
    thorough = ctx.tier == "thorough"
    # enumerated settings: every member by name (random casing) and by value
    for name, (key, enum) in ENUMS.items():
        for member in enum:
            if member.name == "DEFAULT":
                continue
            for form in (casing(rng, member.name), member.name.lower(), str(int(member)), f"{int(member)}.0" if thorough else None):
                if form is None:
                    continue
                check_valid(ctx, rng, "enum", [f"{name}={form}"], {key: int(member)}, rand_dev_state(rng))
    # raw integers for fan speed
    for v in [0, 1, 33, 50, 99, 101, 255] + ([rng.randrange(256) for _ in range(10)] if thorough else []):
        check_valid(ctx, rng, "fan_raw", [f"fan_speed={v}"], {"fan": v}, rand_dev_state(rng))
    # booleans
    for name, key in BOOLS.items():
        for form, val in [("True", 1), ("False", 0), ("1", 1), ("0", 0), ("true", 1), ("false", 0), ("TRUE", 1)]:
            check_valid(ctx, rng, "bool", [f"{name}={form}"], ({key: val} if key else {}), rand_dev_state(rng))
    # numbers
    for form, half in [("20.5", 41), ("20", 40), ("17", 34), ("30", 60), ("16.5", 33), ("13", 26), ("43.5", 87), ("25.0", 50)]:
        check_valid(ctx, rng, "number", [f"target_temperature={form}"], {"temp": half}, rand_dev_state(rng))
    for form, v in [("45", 45), ("0", 0), ("100", 100), ("35", 35)]:
        check_valid(ctx, rng, "number", [f"target_humidity={form}"], {"hum": v}, rand_dev_state(rng))
    # display: toggled only when it differs
    for cur in (True, False):
        for form, wantv in [("True", True), ("False", False), ("1", True), ("0", False)]:
            check_valid(ctx, rng, "display", [f"display_on={form}"], {}, rand_dev_state(rng), display=cur, want_display=wantv)
            check_valid(ctx, rng, "display", [f"display_on={form}", "eco=1"], {"eco": 1}, rand_dev_state(rng), display=cur, want_display=wantv)
    # all pairs of settings on one command line
    singles = [("operational_mode=cool", {"mode": 2}), ("fan_speed=60", {"fan": 60}), ("swing_mode=both", {"swing": 15}),
               ("target_temperature=21.5", {"temp": 43}), ("eco=True", {"eco": 1}), ("turbo=0", {"turbo": 0}), ("power_state=1", {"power": 1}),
               ("target_humidity=55", {"hum": 55}), ("aux_mode=aux_only", {"aux": 2}), ("sleep=true", {"sleep": 1}),
               ("freeze_protection=False", {"freeze": 0}), ("fahrenheit=1", {"f": 1}), ("follow_me=1", {"follow": 1}),
               ("purifier=0", {"pur": 0}), ("beep=1", {})]
    import itertools
    for (a, ca), (b, cb) in itertools.combinations(singles, 2):
        if not thorough and rng.random() < 0.5:
            continue
        check_valid(ctx, rng, "pairs", [a, b], {**ca, **cb}, rand_dev_state(rng))
    # ordered pairs (and a few longer lines) of ENUMERATED settings in mixed forms — a value given as a number next to one
    # given by name, in both orders: each setting is parsed on its own, nothing carries over from one to the next
    enum_names = list(ENUMS)
    def pick(name):
        key, enum = ENUMS[name]
        member = rng.choice([m for m in enum if m.name != "DEFAULT"])
        return key, member
    for n1, n2 in itertools.permutations(enum_names, 2):
        for f1 in ("num", "name"):
            for f2 in ("num", "name"):
                if not thorough and f1 == f2 and rng.random() < 0.5:
                    continue
                (k1, m1), (k2, m2) = pick(n1), pick(n2)
                a = f"{n1}={int(m1) if f1 == 'num' else casing(rng, m1.name)}"
                b = f"{n2}={int(m2) if f2 == 'num' else casing(rng, m2.name)}"
                check_valid(ctx, rng, "enum_pairs", [a, b], {k1: int(m1), k2: int(m2)}, rand_dev_state(rng))
    for _ in range(10 if not thorough else 200):
        names = rng.sample(enum_names, min(len(enum_names), rng.randrange(2, 5)))
        line, changes = [], {}
        for nm in names:
            k, m = pick(nm)
            line.append(f"{nm}={int(m) if rng.random() < 0.5 else casing(rng, m.name)}")
            changes[k] = int(m)
        if "fan_speed" not in names and rng.random() < 0.5:
            line.insert(rng.randrange(len(line) + 1), "fan_speed=%d" % 37)
            changes["fan"] = 37
        check_valid(ctx, rng, "enum_lines", line, changes, rand_dev_state(rng))
    # property-protocol settings: every member (the default / off members too), by name and by number
    for name, pid, enum in (("horizontal_swing_angle", 0x000A, AC.SwingAngle), ("vertical_swing_angle", 0x0009, AC.SwingAngle),
                            ("rate_select", 0x0048, AC.RateSelect)):
        for member in enum:
            if member.name == "DEFAULT":
                continue
            for form in (casing(rng, member.name), str(int(member))):
                check_prop(ctx, rng, "prop_settings", f"{name}={form}", pid, bytes([int(member)]))
    for form, val in [("True", 1), ("False", 0), ("1", 1), ("0", 0)]:
        check_prop(ctx, rng, "prop_settings", f"ieco={form}", 0x00E3, bytes([0, 1, val]))
        check_prop(ctx, rng, "prop_settings", f"breezeless={form}", 0x0018, bytes([val]))
        check_prop(ctx, rng, "prop_settings", f"breeze_away={form}", 0x0042, bytes([2 if val else 1]))
    # invalid names and values: rejected with non-zero exit before anything is sent
    invalid = ["nonsense=1", "online=True", "supported_operation_modes=1", "indoor_temperature=20", "min_target_temperature=16",
               "operational_mode=warp", "operational_mode=9", "swing_mode=7", "swing_mode=diagonal", "aux_mode=5",
               "eco=maybe", "power_state=on", "target_temperature=hot", "target_temperature=", "target_humidity=x",
               "fan_speed=fast", "to_dict=1", "_eco=1", "refresh=1", "id=5", "display_on=maybe", "operational_mode=", "eco="]
    for s in invalid:
        check_invalid(ctx, rng, "invalid", [s])
        check_invalid(ctx, rng, "invalid_after_valid", ["eco=True", s])
        check_invalid(ctx, rng, "invalid_before_valid", [s, "fan_speed=60"])
    # ... also with --capabilities (the capability query of a unit WITHOUT custom fan speeds, with a limited mode set, ...):
    # what the unit can do must not rewrite what it reported for the settings the user did not name
    import respgen
    caps_variants = [
        respgen.make_frame(respgen.caps_body([(0x0210, [5]), (0x0214, [0]), (0x0215, [1])]) + b"\x00", frame_type=3),
        respgen.make_frame(respgen.caps_body([(0x0210, [1]), (0x0214, [1]), (0x0212, [1]), (0x0216, [1])]) + b"\x00", frame_type=3),
        respgen.make_frame(respgen.caps_body([(0x0210, [7]), (0x021F, [3]), (0x0225, [32, 60, 34, 60, 34, 60, 1])]) + b"\x00", frame_type=3),
    ]
    for cf in caps_variants:
        for _ in range(4 if not thorough else 40):
            st = rand_dev_state(rng)
            st["fan"] = rng.choice([50, 33, 77, 1, 40, 102])
            check_valid(ctx, rng, "preserved_with_capabilities", ["beep=0"], {}, st, extra_args=("--capabilities",), caps_frame=cf)
            check_valid(ctx, rng, "preserved_with_capabilities", ["eco=1"], {"eco": 1}, st, extra_args=("--capabilities",), caps_frame=cf)
    # unspecified settings are preserved (every field individually)
    for _ in range(20 if not thorough else 300):
        st = rand_dev_state(rng)
        check_valid(ctx, rng, "preserved", ["beep=0"], {}, st)


def search(ctx):
    run(ctx)


def replay(ctx, case):
    inp = case["input"]
    code, model, dev, contacted = run_cli(ctx, inp["settings"], dev_state=inp.get("device_state_before"))
    print("exit:", code, "contacted:", contacted, "state:", model.state)
    return 0
