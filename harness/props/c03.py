"""C03 — V2 packet integrity: altered or truncated packets rejected, never mis-decoded."""
import lanimpl
from common import hx


def check(ctx, stream, orig_frame, mutated, note):
    out = lanimpl.v2_decode(mutated)
    inp = {"frame": hx(orig_frame), "packet": hx(mutated), "note": note}
    ok = (out == "err:protocol")
    if not ok:
        ctx.violate(stream, inp, out, "ProtocolError",
                    "altered / truncated packet was not rejected with a protocol error"
                    + (" (it was accepted as the original frame: the signature no longer covers the altered bytes)" if out == hx(orig_frame) else ""))
    return out, inp


def through_lan(ctx, rng, version, frame, mutated, note):
    """the same alterations as the device's answer to a real `LAN.send` (virtual-time loop, simulated device); on V3 the
    altered V2 packet travels inside a VALID encrypted V3 response, so only the V2 signature can reject it.  The exchange
    must end in a protocol error / timeout, or return exactly the frame the device sent - never another frame."""
    import simdev
    import vloop
    from props import c09
    from msmart.device.AC.device import AirConditioner as AC
    from msmart.lan import ProtocolError
    from common import lan_of
    token, key = c09.rb(rng, 64), c09.rb(rng, 32)
    dev = simdev.SimDevice(version=version, device_id=77, token=token if version == 3 else None,
                           key=key if version == 3 else None)
    result = {}

    def custom(d, tr, info):
        sk = d.conns[tr.cid].get("session_key") or bytes(32)
        tr.deliver(0.05, mutated if version == 2 else c09.v3_wrap(sk, 3, 0, mutated))

    async def scenario(loop, net):
        net.add_tcp("1.2.3.4", 6444, dev)
        ac = AC(ip="1.2.3.4", port=6444, device_id=77)
        try:
            if version == 3:
                await ac.authenticate(token, key)
            dev.script = [("custom", custom)]
            r = await lan_of(ac).send(b"\xaa\x0b\xac\x00\x00\x00\x00\x00\x00\x03\x41\x05", retries=1)
            result["out"] = [hx(x) for x in r]
        except ProtocolError:
            result["out"] = "err:protocol"
        except TimeoutError:
            result["out"] = "err:timeout"
        except Exception as e:  # noqa
            result["out"] = "err:py:" + type(e).__name__
    vloop.run(scenario)
    out = result.get("out")
    stream = f"lan_v{version}"
    inp = {"frame": hx(frame), "packet": hx(mutated), "note": note, "version": version}
    ok = out in ("err:protocol", "err:timeout") or (note == "unaltered" and isinstance(out, list) and all(x == hx(frame) for x in out))
    if not ok:
        ctx.violate(stream, inp, out, "protocol error / timeout, or only the original frame",
                    "an altered V2 packet delivered through a live connection produced a frame the device never sent")
    ctx.count(f"{stream}:{out if isinstance(out, str) else 'frames'}")
    ctx.case(stream, key=(version, hx(mutated)), sample={"note": note, "outcome": str(out)[:40]})


def lan_streams(ctx, rng, thorough):
    import msmart.lan as lan
    for n in ((35,) if not thorough else (0, 16, 35, 100)):
        frame = bytes(rng.randrange(256) for _ in range(n))
        pkt = lan._Packet.encode(rng.randrange(2 ** 48), frame)
        if ctx.driver:
            # as a DEVICE builds it: all-zero timestamp and filler fields
            pkt = bytes.fromhex(ctx.driver.ask(f"spec_v2_encode id={rng.randrange(2 ** 48)} ts={hx(bytes(8))} filler={hx(bytes(12))} frame={hx(frame)}"))
        for version in (2, 3):
            through_lan(ctx, rng, version, frame, pkt, "unaltered")
            for i in range(len(pkt)):
                bits = range(8) if (thorough or i < 6 or i >= len(pkt) - 16) else [rng.randrange(8)]
                for b in bits:
                    m = bytearray(pkt)
                    m[i] ^= 1 << b
                    through_lan(ctx, rng, version, frame, bytes(m), f"bit {b} of byte {i}")
            L = len(pkt)
            for name, lo, hi in (("signature", L - 16, L), ("signature second half", L - 8, L), ("payload", 40, L - 16), ("header", 6, 12)):
                for fill in (0x00, 0xFF):
                    m = bytearray(pkt)
                    m[lo:hi] = bytes([fill]) * (hi - lo)
                    if bytes(m) != pkt:
                        through_lan(ctx, rng, version, frame, bytes(m), f"{name} := {fill:02x}..")
            for k in sorted(set(rng.sample(range(len(pkt)), 12)) | {0, 5, 6, 39, 40, len(pkt) - 16, len(pkt) - 1}):
                through_lan(ctx, rng, version, frame, pkt[:k], f"first {k} bytes")


def authentic_frames(ctx, rng, thorough):
    """an AUTHENTIC packet decodes to exactly the frame the device sent - also when the frame ends in bytes that look like
    its own PKCS7 padding (last byte(s) equal to 16 - len % 16), in 0x10 bytes, in zeros, or is all padding-like"""
    import msmart.lan as lan
    for n in (range(1, 50) if not thorough else range(1, 130)):
        pad = 16 - n % 16
        tails = [bytes([pad]), bytes([pad]) * min(n, 3), bytes([pad]) * min(n, pad), b"\x10", b"\x00", b"\x01", bytes([pad - 1 or 16]), bytes([(pad % 16) + 1])]
        for t in tails:
            frame = (rb_(rng, n) + t)[-n:] if len(t) <= n else t[:n]
            frame = frame[:n - len(t)] + t if len(t) <= n else frame
            pkt = bytes.fromhex(ctx.driver.ask(f"spec_v2_encode id={rng.randrange(2 ** 48)} ts={hx(rb_(rng, 8))} filler={hx(bytes(12))} frame={hx(frame)}")) \
                if ctx.driver else lan._Packet.encode(1, frame)
            out = lanimpl.v2_decode(pkt)
            inp = {"frame": hx(frame), "packet": hx(pkt), "note": "authentic, frame ends in padding-like bytes"}
            if out != hx(frame):
                ctx.violate("authentic", inp, out, hx(frame), "an authentic packet was decoded to a frame different from the one sent")
            if ctx.driver:
                m = ctx.driver.ask(f"v2_decode data={hx(pkt)}")
                if m != out:
                    ctx.disagree("authentic", inp, out, m)
            ctx.case("authentic", key=hx(pkt), sample={"frame_len": n, "tail": hx(t)})


def rb_(rng, n):
    return bytes(rng.randrange(256) for _ in range(n))


def run(ctx):
    rng = ctx.rng
    thorough = ctx.tier == "thorough"
    lan_streams(ctx, rng, thorough)
    authentic_frames(ctx, rng, thorough)
    lens = [0, 1, 15, 16, 17, 31, 32, 33, 100, 255]
    lines, meta = [], []
    for n in lens:
        frame = bytes(rng.randrange(256) for _ in range(n))
        # real appliances often send an all-zero timestamp field (unset clock): half of the packets carry one
        ts = bytes(rng.randrange(256) for _ in range(8)) if n % 2 else bytes(8)
        did = rng.randrange(2 ** 48)
        pkt = bytes.fromhex(ctx.driver.ask(f"spec_v2_encode id={did} ts={hx(ts)} filler={hx(bytes(12))} frame={hx(frame)}")) \
            if ctx.driver else None
        if pkt is None:
            import msmart.lan as lan
            pkt = lan._Packet.encode(did, frame)
        assert lanimpl.v2_decode(pkt) == hx(frame)
        muts = []
        # every single-bit flip at every position
        for i in range(len(pkt)):
            for b in range(8):
                m = bytearray(pkt)
                m[i] ^= 1 << b
                muts.append(("bitflip", bytes(m), f"bit {b} of byte {i}"))
        # every truncation length
        for k in range(len(pkt)):
            muts.append(("truncate", pkt[:k], f"first {k} bytes"))
        # single-byte substitutions
        for i in range(len(pkt)):
            # all 255 substitutes for the marker / length / type bytes; elsewhere a random sample plus the values that mean
            # something to some layer (frame start 0xAA, markers 5A / 83 70, 00, FF, the neighbouring values)
            vals = range(256) if (thorough or i < 6) else sorted(set(rng.sample(range(256), 8)) | {0x00, 0xFF, 0xAA, 0x5A, 0x83, 0x70, (pkt[i] + 1) & 0xFF, (pkt[i] - 1) & 0xFF})
            for v in vals:
                if v != pkt[i]:
                    m = bytearray(pkt)
                    m[i] = v
                    muts.append(("substitute", bytes(m), f"byte {i} := {v}"))
        # a whole field blanked or saturated (a decoder that skips a check when a field "is not there"): start marker,
        # length, header, timestamp, device id, encrypted payload, signature, and halves of the last two
        L = len(pkt)
        fields = [("marker", 0, 2), ("length", 4, 6), ("header", 6, 12), ("timestamp", 12, 20), ("device id", 20, 28),
                  ("reserved", 28, 40), ("payload", 40, L - 16), ("payload first block", 40, 56), ("signature", L - 16, L),
                  ("signature first half", L - 16, L - 8), ("signature second half", L - 8, L), ("payload+signature", 40, L)]
        for name, lo, hi in fields:
            for fill in (0x00, 0xFF, 0x10):
                m = bytearray(pkt)
                m[lo:hi] = bytes([fill]) * (hi - lo)
                if bytes(m) != pkt and len(m) == L:
                    muts.append(("blanked", bytes(m), f"{name} := {fill:02x}.."))
        # random multi-byte corruptions
        for _ in range(300 if not thorough else 3000):
            m = bytearray(pkt)
            for _ in range(rng.randrange(2, 8)):
                m[rng.randrange(len(m))] = rng.randrange(256)
            if bytes(m) != pkt:
                muts.append(("multi", bytes(m), "random multi-byte"))
        # trailing garbage / extension is NOT an alteration the property lists; appended bytes are ignored by design
        for stream, m, note in muts:
            out, inp = check(ctx, stream, frame, m, note)
            lines.append(f"v2_decode data={hx(m)}")
            meta.append((stream, inp, out))
            ctx.count(f"{stream}:{'rejected' if out == 'err:protocol' else 'other'}")
            ctx.case(stream, key=hx(m), sample={"frame_len": n, "note": note, "impl": out[:30]})
    if ctx.driver:
        for (stream, inp, out), rep in zip(meta, ctx.driver.batch(lines)):
            if rep != out:
                ctx.disagree(stream, inp, out, rep)


def search(ctx):
    run(ctx)


def replay(ctx, case):
    pkt = bytes.fromhex(case["input"]["packet"]) if case["input"]["packet"] != "-" else b""
    if "version" in case["input"]:
        fr = case["input"]["frame"]
        through_lan(ctx, ctx.rng, case["input"]["version"], bytes.fromhex(fr) if fr != "-" else b"", pkt, case["input"]["note"])
        print("through LAN.send:", "VIOLATED" if ctx.violations else "held", ctx.dist)
    print("impl :", lanimpl.v2_decode(pkt))
    if ctx.driver:
        print("model:", ctx.driver.ask(f"v2_decode data={hx(pkt)}"))
    return 0
