"""C03 — V2 packet integrity: altered or truncated packets rejected, never mis-decoded."""
import lanimpl
from common import hx


def check(ctx, stream, orig_frame, mutated, note):
    out = lanimpl.v2_decode(mutated)
    inp = {"frame": hx(orig_frame), "packet": hx(mutated), "note": note}
    ok = (out == "err:protocol") or (out == hx(orig_frame))
    if not ok:
        ctx.violate(stream, inp, out, "ProtocolError (or the original frame)",
                    "altered / truncated packet was not rejected with a protocol error")
    return out, inp


def run(ctx):
    rng = ctx.rng
    thorough = ctx.tier == "thorough"
    lens = [0, 1, 15, 16, 17, 31, 32, 33, 100, 255]
    lines, meta = [], []
    for n in lens:
        frame = bytes(rng.randrange(256) for _ in range(n))
        ts = bytes(rng.randrange(256) for _ in range(8))
        did = rng.randrange(2 ** 48)
        pkt = bytes.fromhex(ctx.driver.ask(f"spec_v2_encode id={did} ts={hx(ts)} filler={hx(bytes(12))} frame={hx(frame)}")) \
            if ctx.driver else None
        if pkt is None:
            import msmart.lan as lan
            pkt = lan._Packet.encode(did, frame)
        assert lanimpl.v2_decode(pkt) == hx(frame)
        muts = []
        # every single-bit flip at every position
        for i in range(len(pkt)):
            for b in range(8):
                m = bytearray(pkt)
                m[i] ^= 1 << b
                muts.append(("bitflip", bytes(m), f"bit {b} of byte {i}"))
        # every truncation length
        for k in range(len(pkt)):
            muts.append(("truncate", pkt[:k], f"first {k} bytes"))
        # single-byte substitutions
        for i in range(len(pkt)):
            vals = range(256) if thorough else rng.sample(range(256), 8)
            for v in vals:
                if v != pkt[i]:
                    m = bytearray(pkt)
                    m[i] = v
                    muts.append(("substitute", bytes(m), f"byte {i} := {v}"))
        # random multi-byte corruptions
        for _ in range(300 if not thorough else 3000):
            m = bytearray(pkt)
            for _ in range(rng.randrange(2, 8)):
                m[rng.randrange(len(m))] = rng.randrange(256)
            if bytes(m) != pkt:
                muts.append(("multi", bytes(m), "random multi-byte"))
        # trailing garbage / extension is NOT an alteration the property lists; appended bytes are ignored by design
        for stream, m, note in muts:
            out, inp = check(ctx, stream, frame, m, note)
            lines.append(f"v2_decode data={hx(m)}")
            meta.append((stream, inp, out))
            ctx.count(f"{stream}:{'rejected' if out == 'err:protocol' else 'other'}")
            ctx.case(stream, key=hx(m), sample={"frame_len": n, "note": note, "impl": out[:30]})
    if ctx.driver:
        for (stream, inp, out), rep in zip(meta, ctx.driver.batch(lines)):
            if rep != out:
                ctx.disagree(stream, inp, out, rep)


def search(ctx):
    run(ctx)


def replay(ctx, case):
    pkt = bytes.fromhex(case["input"]["packet"]) if case["input"]["packet"] != "-" else b""
    print("impl :", lanimpl.v2_decode(pkt))
    if ctx.driver:
        print("model:", ctx.driver.ask(f"v2_decode data={hx(pkt)}"))
    return 0
