"""C06 — V3 handshake: key agreement when genuine, sound rejection otherwise."""
import lanimpl
import simdev
import vloop
from common import hx, lan_of
from msmart.device.AC.command import GetStateCommand
from msmart.device.AC.device import AirConditioner as AC
from msmart.lan import AuthenticationError


def cbc_encrypt(key, plain):
    """AES-CBC, zero IV - the library's cipher primitive itself, not the repository's wrapper"""
    from Crypto.Cipher import AES
    return AES.new(key, AES.MODE_CBC, iv=bytes(16)).encrypt(plain)


def rb(rng, n):
    return bytes(rng.randrange(256) for _ in range(n))


def special_bytes(rng, n, style):
    """byte strings a conversion heuristic could mistake for something else"""
    if style == "ascii_hex":
        return bytes(rng.choice(b"0123456789abcdefABCDEF") for _ in range(n))
    if style == "ascii_hex_spaces":
        return bytes(rng.choice(b"0123456789abcdef  ") for _ in range(n))
    if style == "printable":
        return bytes(rng.randrange(0x20, 0x7F) for _ in range(n))
    if style == "zeros":
        return bytes(n)
    if style == "ff":
        return b"\xff" * n
    if style == "digits":
        return bytes(rng.choice(b"0123456789") for _ in range(n))
    return rb(rng, n)


def scenario_run(ctx, stream, name, make_reply, hexform, pre_auth, cred_style=None):
    """make_reply(device, key, nonce, counter) -> bytes | None (None = genuine via Spec through the driver).
    pre_auth: first authenticate genuinely (so token/key are stored), then re-authenticate with the
    scripted reply using NEW credentials: stored ones must not be replaced on failure."""
    rng = ctx.rng
    token, key = rb(rng, 64), rb(rng, 32)
    token2, key2 = rb(rng, 64), rb(rng, 32)
    if cred_style is not None:
        token, key = special_bytes(rng, 64, cred_style[0]), special_bytes(rng, 32, cred_style[1])
        token2, key2 = special_bytes(rng, 64, cred_style[0]), special_bytes(rng, 32, cred_style[1])
    dev = simdev.SimDevice(version=3, device_id=99, token=token, key=key)
    res = {}
    nonce = rb(rng, 32)

    def custom(d, tr, info):
        conn = d.conns[tr.cid]
        use_key = key2 if pre_auth else key
        reply = make_reply(d, use_key, nonce, info["counter"])
        if reply is None:
            reply = bytes.fromhex(ctx.driver.ask(f"spec_v3_hs_reply key={hx(use_key)} nonce={hx(nonce)} ctr={info['counter']}"))
            conn["session_key"] = bytes.fromhex(ctx.driver.ask(f"spec_v3_session_key key={hx(use_key)} nonce={hx(nonce)}"))
            res["genuine"] = True
        tr.deliver(0.1, reply)

    async def scenario(loop, net):
        net.add_tcp("1.2.3.4", 6444, dev)
        ac = AC(ip="1.2.3.4", port=6444, device_id=99)
        if pre_auth:
            await ac.authenticate(token.hex() if hexform else token, key.hex() if hexform else key)
            dev.token = token2      # the device now expects the new credentials
            dev.key = key2
        res["tk_before"] = (ac.token, ac.key)
        n_before = len(dev.log)
        dev.script = [("custom", custom), "silent", "silent"]
        t, k = (token2, key2) if pre_auth else (token, key)
        try:
            await ac.authenticate(t.hex() if hexform else t, k.hex() if hexform else k)
            res["out"] = "ok"
        except AuthenticationError:
            res["out"] = "err:auth"
        except Exception as e:  # noqa
            res["out"] = lanimpl.canon_exc(e)
        res["tk_after"] = (ac.token, ac.key)
        res["authed"] = bool(lan_of(ac)._protocol is not None and getattr(lan_of(ac)._protocol, "authenticated", False)
                             and (not pre_auth or lan_of(ac).key == k))
        res["written"] = [e["kind"] for e in dev.log[n_before:]]
        res["tokens_ok"] = all(e.get("token") == t for e in dev.log[n_before:] if e["kind"] == "hs")
        if res["out"] == "ok":
            dev.script = []
            n2 = len(dev.log)
            r = await lan_of(ac).send(GetStateCommand().tobytes())
            res["send_ok"] = len(r) >= 1 and all(e.get("tag_ok") for e in dev.log[n2:] if e["kind"] == "data")
        res["expect_creds"] = (t.hex(), k.hex())
    try:
        vloop.run(scenario)
    except Exception as e:  # noqa
        res["out"] = "err:py:" + type(e).__name__ + "(outer)"
    inp = {"reply": name, "hexform": hexform, "pre_auth": pre_auth}
    if cred_style is not None:
        inp.update(cred_style=list(cred_style), token=hx(token), key=hx(key))
    genuine = res.get("genuine", False)
    if genuine:
        ok = res.get("out") == "ok" and res.get("send_ok") and res.get("tk_after") == res.get("expect_creds")
        if not ok:
            ctx.violate(stream, inp, {k: str(v)[:80] for k, v in res.items()}, "authenticated, credentials stored, data exchange accepted by the device",
                        "genuine handshake reply did not lead to a working authenticated session")
    else:
        problems = []
        if res.get("out") != "err:auth":
            problems.append(f"outcome {res.get('out')} instead of an authentication error")
        if res.get("tk_after") != res.get("tk_before"):
            problems.append("stored token/key replaced")
        if any(kd != "hs" for kd in res.get("written", [])):
            problems.append(f"something other than handshake requests was written: {res.get('written')}")
        if not res.get("tokens_ok", True):
            problems.append("handshake request does not carry the supplied token")
        if res.get("authed") and not pre_auth:
            problems.append("session is authenticated")
        if problems:
            ctx.violate(stream, inp, problems, "authentication error; unauthenticated; only handshake requests sent; stored credentials kept",
                        "forged / malformed handshake reply not rejected soundly: " + problems[0])
    ctx.count(f"{stream}:{res.get('out')}")
    ctx.case(stream, key=(name, hexform, pre_auth), sample={**inp, "outcome": res.get("out"), "written": res.get("written")})


def hs_packet(payload, ptype=1, counter=0, size=None):
    sz = len(payload) if size is None else size
    return b"\x83\x70" + sz.to_bytes(2, "big") + b"\x20" + bytes([ptype]) + counter.to_bytes(2, "big") + payload


def genuine_payload(ctx, key, nonce):
    pkt = bytes.fromhex(ctx.driver.ask(f"spec_v3_hs_reply key={hx(key)} nonce={hx(nonce)} ctr=0"))
    return pkt[8:]


def repeat_scenario(ctx, rng):
    """the SAME credentials, several genuine handshakes in one process: re-authentication on the same object, a second
    object for the same unit, automatic re-authentication after a peer close — each with a fresh nonce of the device.
    Every one of them must agree on the session key (the following data exchange is accepted by the device)."""
    token, key = rb(rng, 64), rb(rng, 32)
    dev = simdev.SimDevice(version=3, device_id=99, token=token, key=key)
    res = {"steps": []}

    async def scenario(loop, net):
        net.add_tcp("1.2.3.4", 6444, dev)

        async def step(name, coro_fn):
            n0 = len(dev.log)
            try:
                await coro_fn()
                out = "ok"
            except Exception as e:  # noqa
                out = lanimpl.canon_exc(e)
            data = [e for e in dev.log[n0:] if e["kind"] == "data"]
            res["steps"].append((name, out, all(e.get("tag_ok") for e in data), len(data)))
        ac = AC(ip="1.2.3.4", port=6444, device_id=99)
        frame = GetStateCommand().tobytes()
        await step("authenticate", lambda: ac.authenticate(token, key))
        await step("send", lambda: lan_of(ac).send(frame))
        await step("authenticate-again", lambda: ac.authenticate(token, key))
        await step("send", lambda: lan_of(ac).send(frame))
        ac2 = AC(ip="1.2.3.4", port=6444, device_id=99)
        await step("second-object-authenticate", lambda: ac2.authenticate(token.hex(), key.hex()))
        await step("second-object-send", lambda: lan_of(ac2).send(frame))
        for cid in list(dev.conns):
            tr = dev.conns[cid].get("transport")
            if tr is not None:
                tr.peer_close(0.01)
        import asyncio
        await asyncio.sleep(0.1)
        await step("send-after-peer-close", lambda: lan_of(ac).send(frame))
    try:
        vloop.run(scenario)
    except Exception as e:  # noqa
        res["steps"].append(("outer", lanimpl.canon_exc(e), False, 0))
    bad = [s_ for s_ in res["steps"] if s_[1] != "ok" or not s_[2] or (s_[0].endswith("send") or "send" in s_[0]) and s_[3] < 1]
    inp = {"token": hx(token), "key": hx(key)}
    if bad:
        ctx.violate("repeat_same_key", inp, [list(b) for b in bad], "every step ok and accepted by the device",
                    "a genuine handshake with credentials already used in this process did not lead to a working session: " + bad[0][0])
    ctx.count("repeat_same_key")
    ctx.case("repeat_same_key", key=hx(key), sample={"steps": [s_[0] + ":" + s_[1] for s_ in res["steps"]]})


def concurrent_scenario(ctx, rng, n_dev, stall_first):
    """several units, each with its own credentials and its own client object in ONE process, handshaking and exchanging
    data AT THE SAME TIME, every reply arriving in several TCP segments that interleave across the connections; optionally
    one unit first stalls in the middle of a handshake reply (the client times out and drops that connection).  Nothing a
    connection received may influence another connection or a later one: every genuine handshake succeeds, every data
    exchange is accepted by its device."""
    import asyncio
    devs, creds = [], []
    for i in range(n_dev):
        token, key = rb(rng, 64), rb(rng, 32)
        d = simdev.SimDevice(version=3, device_id=100 + i, token=token, key=key, delay=0.05 + 0.013 * i)
        devs.append(d)
        creds.append((token, key))
    res = {"steps": []}
    frame = GetStateCommand().tobytes()

    def seg_script(k):
        # every reply in three segments, 30 ms apart; the cuts differ per device so that the arrivals interleave
        return [("segments", [3 + k, 40 + 7 * k], None, 0.03) for _ in range(12)]

    async def scenario(loop, net):
        acs = []
        for i, d in enumerate(devs):
            net.add_tcp(f"1.2.3.{10 + i}", 6444, d)
            acs.append(AC(ip=f"1.2.3.{10 + i}", port=6444, device_id=100 + i))

        async def guarded(name, coro):
            try:
                await coro
                return (name, "ok")
            except Exception as e:  # noqa
                return (name, lanimpl.canon_exc(e))
        if stall_first:
            # unit 0 sends only the first 30 bytes of its handshake reply, then nothing: the client gives up
            def half(d, tr, info):
                reply = d._proper_reply(d.conns[tr.cid], info)
                tr.deliver(0.05, reply[:30])
            devs[0].script = [("custom", half), "silent", "silent"]
            r = await guarded("stalled-authenticate", acs[0].authenticate(*creds[0]))
            res["stalled"] = r[1]
        for k, d in enumerate(devs):
            d.script = seg_script(k)
        marks = [len(d.log) for d in devs]
        res["steps"] += await asyncio.gather(*[guarded(f"authenticate-{i}", acs[i].authenticate(*creds[i])) for i in range(n_dev)])
        res["steps"] += await asyncio.gather(*[guarded(f"send-{i}", lan_of(acs[i]).send(frame)) for i in range(n_dev)])
        res["steps"] += await asyncio.gather(*[guarded(f"send2-{i}", lan_of(acs[i]).send(frame)) for i in range(n_dev)])
        res["accepted"] = [all(e.get("tag_ok") for e in d.log[m:] if e["kind"] == "data") and
                           sum(1 for e in d.log[m:] if e["kind"] == "data") >= 2 for d, m in zip(devs, marks)]
    try:
        vloop.run(scenario)
    except Exception as e:  # noqa
        res["steps"].append(("outer", lanimpl.canon_exc(e)))
    bad = [s_ for s_ in res["steps"] if s_[1] != "ok"]
    inp = {"devices": n_dev, "stall_first": stall_first, "keys": [hx(k)[:16] for _t, k in creds]}
    if stall_first and res.get("stalled") not in ("err:auth", "err:timeout"):
        bad.append(("stalled-authenticate", res.get("stalled")))
    if bad or not all(res.get("accepted", [False])):
        ctx.violate("concurrent_objects", inp, {"failed": [list(b) for b in bad], "accepted": res.get("accepted")},
                    "every genuine handshake succeeds and every data exchange is accepted by its own device",
                    "connections of one process influence each other: " + (bad[0][0] if bad else "data not accepted"))
    ctx.count(f"concurrent_objects:{n_dev}:{int(stall_first)}")
    ctx.case("concurrent_objects", key=(n_dev, stall_first, hx(creds[0][1])), sample={"steps": [a + ":" + b for a, b in res["steps"]][:6]})


def run(ctx):
    rng = ctx.rng
    if not ctx.driver:
        return
    thorough = ctx.tier == "thorough"
    for n_dev in (2, 3):
        for stall in (False, True):
            for _ in range(2 if not thorough else 15):
                concurrent_scenario(ctx, rng, n_dev, stall)
    # genuine, bytes and hex-string credential forms, fresh and re-authentication
    for hexform in (False, True):
        for pre in (False, True):
            for _ in range(3 if not thorough else 30):
                scenario_run(ctx, "genuine", "genuine", lambda d, k, n, c: None, hexform, pre)
    # credentials of every FORM: bytes that happen to be ASCII hex digits / digits / printable text / contain spaces, all
    # zero, all ff - given as bytes and as hex strings: a genuine handshake must succeed with exactly these bytes
    styles = ["ascii_hex", "ascii_hex_spaces", "printable", "zeros", "ff", "digits", "random"]
    for ts in styles:
        for ks in styles:
            if not thorough and ts != ks and "random" not in (ts, ks):
                continue
            for hexform in (False, True):
                scenario_run(ctx, "credential_forms", "genuine", lambda d, k, n, c: None, hexform, False, cred_style=(ts, ks))
    for _ in range(4 if not thorough else 40):
        repeat_scenario(ctx, rng)
    # every single-bit flip of the 64-byte reply payload
    for i in range(64):
        for b in range(8):
            if not thorough and (i * 8 + b) % 4 and i not in (0, 31, 32, 63):
                continue

            def mk(d, k, n, c, i=i, b=b):
                p = bytearray(genuine_payload(ctx, k, n))
                p[i] ^= 1 << b
                return hs_packet(bytes(p), counter=c)
            scenario_run(ctx, "bitflip", f"bit {b} of byte {i}", mk, False, rng.random() < 0.3)
    # lengths 0..80
    for n in range(0, 81):
        if n == 64:
            continue

        def mk(d, k, nn, c, n=n):
            p = genuine_payload(ctx, k, nn)
            p = (p + rb(rng, 32))[:n]
            return hs_packet(p, counter=c)
        scenario_run(ctx, "length", f"length {n}", mk, False, rng.random() < 0.3)
    # every type nibble in place of the reply
    for t in range(16):
        if t == 1:
            continue

        def mk(d, k, nn, c, t=t):
            return hs_packet(genuine_payload(ctx, k, nn), ptype=t, counter=c)
        scenario_run(ctx, "type", f"type {t:x}", mk, False, rng.random() < 0.3)
    # every bit of the reply packet's fixed header fields: start marker (bytes 0, 1), size (2, 3), magic (4), type nibble (5);
    # the padding nibble and the counter are the device's to choose and carry no proof - they are not alterations
    for i in range(6):
        for b in range(8):
            if i == 5 and b >= 4:
                continue

            def mk(d, k, nn, c, i=i, b=b):
                p = bytearray(hs_packet(genuine_payload(ctx, k, nn), counter=c))
                p[i] ^= 1 << b
                return bytes(p)
            for pre in ((False, True) if thorough else (bool((i + b) % 2),)):
                scenario_run(ctx, "header_bits", f"bit {b} of header byte {i}", mk, False, pre)
    # a whole field of the 64-byte reply blanked or saturated (a decoder that skips a check when a field "is not there")
    for what, lo, hi in (("ciphertext", 0, 32), ("hash", 32, 64), ("all", 0, 64), ("first block", 0, 16), ("last hash half", 48, 64)):
        for fill in (0x00, 0xFF):
            def mk(d, k, nn, c, lo=lo, hi=hi, fill=fill):
                p = bytearray(genuine_payload(ctx, k, nn))
                p[lo:hi] = bytes([fill]) * (hi - lo)
                return hs_packet(bytes(p), counter=c)
            for pre in (False, True):
                scenario_run(ctx, "blanked", f"{what} = {fill:02x}", mk, False, pre)
    # replies that are related to the KEY itself without proving anything: the plaintext is the key, zero, the token half
    for what in ("key", "zero", "key^ff"):
        for hashkind in ("random", "zero", "of-something-else"):
            def mk(d, k, nn, c, what=what, hashkind=hashkind):
                plain = {"key": k, "zero": bytes(32), "key^ff": bytes(x ^ 0xFF for x in k)}[what]
                ct = cbc_encrypt(k, plain)
                h = {"random": rb(rng, 32), "zero": bytes(32),
                     "of-something-else": __import__("hashlib").sha256(plain + b"x").digest()}[hashkind]
                return hs_packet(bytes(ct) + h, counter=c)
            scenario_run(ctx, "related_plaintext", f"plaintext {what}, hash {hashkind}", mk, False, what == "zero")
    scenario_run(ctx, "type", "error packet", lambda d, k, n, c: simdev.ERROR_PACKET, False, False)
    scenario_run(ctx, "type", "error packet (reauth)", lambda d, k, n, c: simdev.ERROR_PACKET, False, True)
    # replies produced under a different key
    for _ in range(20 if not thorough else 300):
        def mk(d, k, nn, c):
            other = rb(rng, 32)
            return hs_packet(genuine_payload(ctx, other, nn), counter=c)
        scenario_run(ctx, "wrong_key", "reply under a different key", mk, rng.random() < 0.5, rng.random() < 0.5)
    # silence
    scenario_run(ctx, "silent", "no reply", lambda d, k, n, c: b"", False, False)
    scenario_run(ctx, "silent", "no reply (reauth)", lambda d, k, n, c: b"", True, True)
    # codec-level correspondence of _get_local_key / _process_packet
    for _ in range(300 if not thorough else 5000):
        key = rb(rng, 32)
        nonce = rb(rng, 32)
        data = bytearray(genuine_payload(ctx, key, nonce))
        r = rng.random()
        if r < 0.3:
            data[rng.randrange(64)] ^= 1 << rng.randrange(8)
        elif r < 0.4:
            data = data[:rng.randrange(0, 80)]
        elif r < 0.5:
            data += rb(rng, rng.randrange(1, 17))
        elif r < 0.6:
            lo, hi = rng.choice([(0, 32), (32, 64), (0, 64), (0, 16), (48, 64), (32, 33), (63, 64)])
            data[lo:hi] = bytes([rng.choice([0, 0xFF])]) * (hi - lo)
        elif r < 0.65:
            plain = rng.choice([key, bytes(32), nonce])
            data = bytearray(cbc_encrypt(key, plain) + rng.choice([bytes(32), rb(rng, 32), bytes(data[32:])]))
        impl = lanimpl.v3_local_key(key, bytes(data))
        m = ctx.driver.ask(f"v3_local_key key={hx(key)} data={hx(bytes(data))}")
        if impl != m:
            ctx.disagree("local_key", {"key": hx(key), "data": hx(bytes(data))}, impl, m)
        want = ctx.driver.ask(f"spec_v3_session_key key={hx(key)} nonce={hx(nonce)}")
        if (r >= 0.65 or 0.3 <= r < 0.4) and len(data) == 64 and impl != want:
            ctx.violate("local_key", {"key": hx(key), "nonce": hx(nonce)}, impl, want, "session key differs from the device's nonce XOR key")
        ctx.case("local_key", key=hx(bytes(data)) + hx(key), sample={"len": len(data), "impl": impl[:20]})


def search(ctx):
    run(ctx)


def replay(ctx, case):
    print(case["input"], "->", case["observed"])
    return 0
