"""C19 — cloud token retrieval follows the API contract, returns only matching credentials."""
import asyncio
import hashlib
import json
import urllib.parse

import httpx

import discsim
import simdev
import vloop
from common import hx
from msmart.cloud import CloudError, NetHomePlusCloud
from msmart.discover import Discover
from msmart.lan import Security


def sx(s):
    b = s.encode()
    return b.hex() if b else "-"


class SpecServer:
    """I/O shell of a conforming cloud server: every contract decision (signature, password
    derivation) is delegated to the Lean Spec through the driver; it only parses the form."""

    def __init__(self, ctx, accounts, registry, faults=None):
        self.ctx = ctx
        self.accounts = accounts          # account -> password
        self.registry = registry          # udpid -> list of token entries to return
        self.faults = list(faults or [])  # per request: 'timeout' | 'http500' | ('api', code) | None
        self.requests = []
        self.login_ids = {}
        self.sessions = set()
        self.problems = []
        self.n = 0

    def handler(self, request: httpx.Request):
        self.n += 1
        fault = self.faults.pop(0) if self.faults else None
        path = request.url.path
        form = urllib.parse.parse_qsl(request.content.decode(), keep_blank_values=True)
        self.requests.append((path, form, fault))
        if fault == "timeout":
            raise httpx.ReadTimeout("simulated timeout", request=request)
        if fault == "connect":
            raise httpx.ConnectError("simulated connect error", request=request)
        if fault == "http500":
            return httpx.Response(500, text="oops")
        if isinstance(fault, tuple):
            return httpx.Response(200, json={"errorCode": str(fault[1]), "msg": "simulated"})
        fields = ",".join(f"{sx(k)}:{sx(v)}" for k, v in form)
        ok = self.ctx.driver.ask(f"spec_cloud_verify path={sx(path)} fields={fields}")
        d = dict(form)
        if ok != "1":
            self.problems.append(f"signature of {path} does not verify")
            return httpx.Response(200, json={"errorCode": "3301", "msg": "sign error"})
        if len(d) != len(form):
            self.problems.append("duplicate form fields")
        if path == "/v1/user/login/id/get":
            if d.get("loginAccount") not in self.accounts:
                return httpx.Response(200, json={"errorCode": "3102", "msg": "no such account"})
            lid = hashlib.md5(d["loginAccount"].encode()).hexdigest()[:12] + str(self.n)
            self.login_ids[d["loginAccount"]] = lid
            return httpx.Response(200, json={"errorCode": "0", "result": {"loginId": lid}})
        if path == "/v1/user/login":
            acct = d.get("loginAccount")
            lid = self.login_ids.get(acct)
            want = self.ctx.driver.ask(f"spec_cloud_password loginid={sx(lid or '')} password={sx(self.accounts.get(acct, ''))}")
            if lid is None or d.get("password") != want:
                self.problems.append("password derivation does not match")
                return httpx.Response(200, json={"errorCode": "3101", "msg": "bad password"})
            sid = "sess" + str(self.n)
            self.sessions.add(sid)
            return httpx.Response(200, json={"errorCode": "0", "result": {"sessionId": sid, "userId": "1"}})
        if path == "/v1/iot/secure/getToken":
            if d.get("sessionId") not in self.sessions:
                self.problems.append("session id not echoed")
                return httpx.Response(200, json={"errorCode": "3106", "msg": "invalid session"})
            return httpx.Response(200, json={"errorCode": "0", "result": {"tokenlist": self.registry(d.get("udpid"))}})
        return httpx.Response(404, text="no")

    def client_factory(self, **kw):
        return httpx.AsyncClient(transport=httpx.MockTransport(self.handler))


def rand_hex(rng, n):
    return "".join(rng.choice("0123456789abcdef") for _ in range(n))


def token_flow(ctx, rng, stream, position, faults=None, account=None, password=None):
    """login + get_token with the matching entry absent/first/middle/last among near misses"""
    udpid = rand_hex(rng, 32)
    good = {"udpId": udpid, "token": rand_hex(rng, 128), "key": rand_hex(rng, 64)}

    def near(u):
        v = list(u)
        i = rng.randrange(len(v))
        v[i] = rng.choice([c for c in "0123456789abcdef" if c != v[i]])
        return "".join(v)
    others = [{"udpId": rng.choice([near(udpid), udpid.upper() if udpid.upper() != udpid else near(udpid), udpid[:-1], udpid + "0"]),
               "token": rand_hex(rng, 128), "key": rand_hex(rng, 64)} for _ in range(rng.randrange(0, 5))]
    if position == "absent":
        lst = others
    elif position == "first":
        lst = [good] + others
    elif position == "last":
        lst = others + [good]
    elif position == "duplicate":
        lst = others + [good, {"udpId": udpid, "token": rand_hex(rng, 128), "key": rand_hex(rng, 64)}]
    else:
        k = rng.randrange(0, len(others) + 1)
        lst = others[:k] + [good] + others[k:]
    acct = account or "user%d@example.com" % rng.randrange(1000)
    pw = password or rand_hex(rng, rng.randrange(4, 20))
    srv = SpecServer(ctx, {acct: pw}, lambda u: lst, faults=faults)
    cloud = NetHomePlusCloud("US", account=acct, password=pw, get_async_client=srv.client_factory)
    out = {}

    async def go():
        try:
            await cloud.login()
            out["res"] = await cloud.get_token(udpid)
        except CloudError as e:
            out["res"] = "err:cloud"
        except Exception as e:  # noqa
            out["res"] = "err:py:" + type(e).__name__
    asyncio.run(go())
    inp = {"position": position, "faults": [str(f) for f in (faults or [])], "n_entries": len(lst)}
    m = ctx.driver.ask("cloud_get_token udpid=%s list=%s" % (udpid, ",".join(f"{e['udpId']}:{e['token']}:{e['key']}" for e in lst)))
    canon = out["res"] if isinstance(out["res"], str) else f"{out['res'][0]}:{out['res'][1]}"
    if not faults and m != canon:
        ctx.disagree(stream, inp, canon[:60], m[:60])
    if srv.problems:
        ctx.violate(stream, inp, srv.problems, "all requests verify", "a request does not satisfy the server's contract: " + srv.problems[0])
    if not faults:
        if position == "absent":
            ok = out["res"] == "err:cloud"
        else:
            ok = out["res"] == (good["token"], good["key"])
        if not ok:
            ctx.violate(stream, inp, canon[:80], "the matching entry's credentials (cloud error when absent)",
                        "token/key returned are not those of the entry matching the requested udpid")
    ctx.count(f"{stream}:{position}:{canon[:9]}")
    ctx.case(stream, key=(udpid, position, str(faults)), sample={**inp, "result": canon[:40], "requests": len(srv.requests)})
    return srv, out


def fault_sequences(ctx, rng):
    """timeouts / HTTP errors / API error codes up to the retry budget"""
    import itertools
    kinds = [None, "timeout", "http500", ("api", 3004), "connect"]
    for seq in itertools.product(kinds, repeat=3):
        srv, out = token_flow(ctx, rng, "faults", "middle", faults=list(seq) + [None] * 6)
        # count attempts of the FIRST endpoint
        first = [r for r in srv.requests if r[0] == "/v1/user/login/id/get"]
        answers = []
        for path, form, fault in first:
            answers.append({None: "o", "timeout": "t", "http500": "h", "connect": "h"}.get(fault, "a") if not isinstance(fault, tuple) else "a")
        model = ctx.driver.ask("cloud_post retries=3 answers=" + ",".join(
            {None: "o", "timeout": "t", "http500": "h", "connect": "h"}.get(f, "a") if not isinstance(f, tuple) else "a" for f in seq))
        mres, matt = model.split(" attempts=")
        inp = {"faults": [str(f) for f in seq]}
        if len(first) != int(matt):
            ctx.disagree("faults", inp, len(first), model)
        if len(first) > 3:
            ctx.violate("faults", inp, len(first), "<= 3 attempts", "more attempts than the configured retry budget")
        res = out["res"]
        if isinstance(res, str) and res.startswith("err:py"):
            ctx.violate("faults", inp, res, "a cloud error", "a fault surfaced as something other than a cloud error")


API_CODES = [1, 3004, 3101, 3102, 3106, 3144, 3176, 3301, 9999]


def api_code_positions(ctx, rng):
    """every API error code of a catalogue (session expired / invalid, bad credentials, sign error, unknown) as the answer
    to each request of the flow in turn - and a server that really forgets the session after the login.  The error must
    surface as a cloud error, and whatever the client sends afterwards (a retry, a re-login, a repeated request) must still
    carry a signature, login id, password derivation and session id the conforming server verifies."""
    for code in API_CODES:
        for pos in range(3):
            faults = [None] * pos + [("api", code)] + [None] * 8
            srv, out = token_flow(ctx, rng, "api_codes", "middle", faults=faults)
            res = out["res"]
            inp = {"code": code, "request_index": pos}
            if res != "err:cloud":
                ctx.violate("api_codes", inp, str(res)[:60], "a cloud error", "an API error code did not surface as a cloud error")
            if len(srv.requests) > pos + 1 + 6:
                ctx.violate("api_codes", inp, len(srv.requests), "a bounded number of requests", "unbounded retrying after an API error")
    # the server invalidates the session between login and get_token (answers 3106 by itself, verifying everything)
    for _ in range(4):
        udpid = rand_hex(rng, 32)
        good = {"udpId": udpid, "token": rand_hex(rng, 128), "key": rand_hex(rng, 64)}
        acct, pw = "user%d@example.com" % rng.randrange(1000), rand_hex(rng, 10)
        srv = SpecServer(ctx, {acct: pw}, lambda u: [good])
        cloud = NetHomePlusCloud("US", account=acct, password=pw, get_async_client=srv.client_factory)
        out = {}

        async def go():
            await cloud.login()
            srv.sessions.clear()
            try:
                out["first"] = await cloud.get_token(udpid)
            except CloudError:
                out["first"] = "err:cloud"
            except Exception as e:  # noqa
                out["first"] = "err:py:" + type(e).__name__
            try:
                await cloud.login(force=True)          # (a plain login() keeps an existing session by design)
                out["second"] = await cloud.get_token(udpid)
            except Exception as e:  # noqa
                out["second"] = "err:" + type(e).__name__
        asyncio.run(go())
        inp = {"scenario": "session invalidated by the server after login"}
        bad = [p_ for p_ in srv.problems if p_ != "session id not echoed"]
        if bad:
            ctx.violate("session_expired", inp, bad, "all requests verify", "a request sent after the session expired does not satisfy the server's contract: " + bad[0])
        if out.get("first") not in ("err:cloud", (good["token"], good["key"])):
            ctx.violate("session_expired", inp, str(out.get("first"))[:60], "a cloud error (or the credentials after a transparent re-login)",
                        "an expired session surfaced as something else")
        if out.get("second") != (good["token"], good["key"]):
            ctx.violate("session_expired", inp, str(out.get("second"))[:60], "the credentials", "a forced fresh login after an expired session does not work")
        ctx.case("session_expired", key=udpid, sample={**inp, "first": str(out.get("first"))[:20], "requests": len(srv.requests)})


BOUNDARY_IDS = [1, 255, 256, 2 ** 16 - 1, 2 ** 24, 2 ** 32 + 5, 2 ** 40 - 1, 2 ** 40, 0x112233440000, 0x110000000000,
                0x000000000011, 2 ** 48 - 1]


def discover_auto(ctx, rng, endian, device_id=None, silent_on_wrong_token=False):
    """a V3 device registered under udpid(LE id) or udpid(BE id) is authenticated by auto-connect; the id is always
    taken as SIX bytes (ids with zero high or low bytes included)"""
    device_id = rng.randrange(2 ** 40, 2 ** 48) if device_id is None else device_id
    token, key = bytes(rng.randrange(256) for _ in range(64)), bytes(rng.randrange(256) for _ in range(32))
    wrong_t, wrong_k = bytes(rng.randrange(256) for _ in range(64)), bytes(rng.randrange(256) for _ in range(32))
    reg_udpid = Security.udpid(device_id.to_bytes(6, endian)).hex()
    other_udpid = Security.udpid(device_id.to_bytes(6, "big" if endian == "little" else "little")).hex()
    # the udpid derivation itself: model vs implementation
    for e in ("little", "big"):
        m = ctx.driver.ask(f"udpid id={hx(device_id.to_bytes(6, e))}")
        if m != Security.udpid(device_id.to_bytes(6, e)).hex():
            ctx.disagree("udpid", {"id": device_id, "endian": e}, Security.udpid(device_id.to_bytes(6, e)).hex(), m)

    def registry(u):
        if u == reg_udpid:
            return [{"udpId": u, "token": token.hex(), "key": key.hex()}]
        return [{"udpId": u, "token": wrong_t.hex(), "key": wrong_k.hex()}]    # the real service answers every query
    srv = SpecServer(ctx, {"nethome+us@mailinator.com": "password1"}, registry)
    dev = simdev.SimDevice(version=3, device_id=device_id, token=token, key=key)
    dev.silent_on_wrong_token = silent_on_wrong_token      # (a unit that ignores a handshake with a foreign token)
    sn = discsim.ascii_bytes(rng, 32)
    pkt = discsim.spec_reply(ctx, rng, 3, device_id, "10.9.8.7", 6444, sn, b"net_ac_1234")
    out = {}

    async def scenario(loop, net):
        net.add_tcp("10.9.8.7", 6444, dev)

        def responder(net_, data, addr, reply):
            if addr[1] == 6445 and "sent" not in out:
                out["sent"] = True
                reply(0.1, pkt, ("10.9.8.7", 6445))
        net.add_udp_responder(responder)
        try:
            out["devices"] = await Discover.discover(timeout=1, auto_connect=True, get_async_client=srv.client_factory)
            out["silent"] = silent_on_wrong_token
        except Exception as e:  # noqa
            out["exc"] = type(e).__name__ + ": " + str(e)[:80]
    vloop.run(scenario)
    inp = {"id": device_id, "registered_under": endian, "unit_silent_on_foreign_token": silent_on_wrong_token}
    devs = out.get("devices") or []
    ok = (len(devs) == 1 and devs[0].token == token.hex() and devs[0].key == key.hex() and devs[0].online)
    if not ok:
        ctx.violate("discover_auto", inp, {"exc": out.get("exc"), "n": len(devs),
                                          "token_ok": bool(devs and devs[0].token == token.hex()), "online": bool(devs and devs[0].online)},
                    "device authenticated with the registered credentials and refreshed",
                    "V3 device not authenticated with the credentials registered for its id")
    if srv.problems:
        ctx.violate("discover_auto", inp, srv.problems, "all requests verify", srv.problems[0])
    ctx.case("discover_auto", key=(device_id, endian), sample={**inp, "requests": [r[0] for r in srv.requests]})


def discover_login_recovers(ctx, rng, n_fail):
    """devices are discovered without auto-connect; `Discover.connect()` for the first one meets a cloud whose
    login fails (timeouts / HTTP errors up to the retry budget): that must surface as a cloud error; a later
    `Discover.connect()` - cloud healthy again - must log in afresh and authenticate the device with its
    registered credentials (a failed login must not poison later connects)"""
    devs, regs = [], {}
    for k in range(2):
        device_id = rng.randrange(2 ** 40, 2 ** 48)
        token, key = bytes(rng.randrange(256) for _ in range(64)), bytes(rng.randrange(256) for _ in range(32))
        ip = f"10.9.7.{k + 1}"
        regs[Security.udpid(device_id.to_bytes(6, "little")).hex()] = (token, key)
        devs.append((ip, device_id, token, key, simdev.SimDevice(version=3, device_id=device_id, token=token, key=key)))

    def registry(u):
        if u in regs:
            return [{"udpId": u, "token": regs[u][0].hex(), "key": regs[u][1].hex()}]
        return [{"udpId": u, "token": "00" * 64, "key": "00" * 32}]
    fault = rng.choice(["timeout", "http500", "connect"])
    srv = SpecServer(ctx, {"nethome+us@mailinator.com": "password1"}, registry, faults=[])
    out = {"steps": []}

    async def scenario(loop, net):
        for ip, device_id, token, key, dev in devs:
            net.add_tcp(ip, 6444, dev)

        def responder(net_, data, addr, reply):
            if addr[1] == 6445 and "sent" not in out:
                out["sent"] = True
                for i, (ip, device_id, token, key, dev) in enumerate(devs):
                    sn = discsim.ascii_bytes(rng, 32)
                    reply(0.1 + 0.05 * i, discsim.spec_reply(ctx, rng, 3, device_id, ip, 6444, sn, b"net_ac_%04d" % i), (ip, 6445))
        net.add_udp_responder(responder)
        found = await Discover.discover(timeout=1, auto_connect=False, get_async_client=srv.client_factory)
        out["found"] = found
        order = sorted(found, key=lambda d: d.ip)
        # 1. the cloud is down for the first connect
        srv.faults = [fault] * n_fail
        try:
            r = await Discover.connect(order[0])
            out["steps"].append(("connect-cloud-down", "returned:%s" % r))
        except CloudError:
            out["steps"].append(("connect-cloud-down", "err:cloud"))
        except Exception as e:  # noqa
            out["steps"].append(("connect-cloud-down", "err:py:" + type(e).__name__))
        # 2. the cloud is back: both devices connect
        srv.faults = []
        for d in order[::-1] + order[:1]:
            try:
                r = await Discover.connect(d)
                out["steps"].append(("connect-cloud-up", "returned:%s" % r))
            except CloudError:
                out["steps"].append(("connect-cloud-up", "err:cloud"))
            except Exception as e:  # noqa
                out["steps"].append(("connect-cloud-up", "err:py:" + type(e).__name__))
    try:
        vloop.run(scenario)
    except Exception as e:  # noqa
        out["exc"] = type(e).__name__ + ": " + str(e)[:80]
    inp = {"failed_requests_first": n_fail, "fault": fault}
    found = out.get("found") or []
    authed = [d for d in found if any(d.token == t.hex() and d.key == k.hex() for _, _, t, k, _ in devs) and d.online]
    down = [s_ for s_ in out["steps"] if s_[0] == "connect-cloud-down"]
    up = [s_ for s_ in out["steps"] if s_[0] == "connect-cloud-up"]
    if "exc" in out or len(found) != 2:
        ctx.violate("login_recovers", inp, {"exc": out.get("exc"), "found": len(found)}, "two devices discovered", "scenario failed")
    else:
        if n_fail >= 3 and down and down[0][1] not in ("err:cloud",):
            ctx.violate("login_recovers", inp, down, "a cloud error", "an exhausted cloud login did not surface as a cloud error")
        if any(s_[1] != "returned:True" for s_ in up) or len(authed) != 2:
            ctx.violate("login_recovers", inp, {"steps": out["steps"], "authenticated": len(authed)},
                        "every connect made while the cloud is healthy authenticates the device with its registered credentials",
                        "a failed cloud login kept later connects from authenticating")
    bad = [p_ for p_ in srv.problems if "session id" in p_]
    if bad:
        ctx.violate("login_recovers", inp, bad[:2], "every getToken request carries a session id obtained by a login",
                    "a token request was sent without a valid session")
    ctx.case("login_recovers", key=(n_fail, fault, tuple(d[1] for d in devs)), sample={**inp, "steps": out["steps"], "authenticated": len(authed)})


def sign_correspondence(ctx, rng, n):
    sec_cls = getattr(NetHomePlusCloud, "_Security", None)
    if sec_cls is None or not hasattr(sec_cls, "sign") or not hasattr(sec_cls, "encrypt_password"):
        # the signing helper is not reachable under its usual name: the signatures are still verified, request by request,
        # by the conforming server of the other streams
        ctx.count("sign-helper-not-reachable")
        return
    sec = sec_cls()
    for _ in range(n):
        keys = rng.sample(["appId", "src", "format", "clientType", "language", "deviceId", "stamp", "sessionId",
                           "loginAccount", "password", "udpid", "zeta", "Alpha", "a1", "a_", "a"], rng.randrange(1, 12))
        vals = [rng.choice(["", "1017", "en_US", "user+tag@example.com", "a b", "x&y=z", "50%", rand_hex(rng, 8)]) for _ in keys]
        body = dict(zip(keys, vals))
        path = rng.choice(["/v1/user/login", "/v1/iot/secure/getToken", "/v1/user/login/id/get"])
        impl = sec.sign("https://mapp.appsmb.com" + path, body)
        m = ctx.driver.ask(f"cloud_sign path={sx(path)} fields=" + ",".join(f"{sx(k)}:{sx(v)}" for k, v in body.items()))
        if m != impl:
            ctx.disagree("sign", {"path": path, "body": body}, impl, m)
        # order independence on the implementation
        items = list(body.items())
        rng.shuffle(items)
        if sec.sign("https://mapp.appsmb.com" + path, dict(items)) != impl:
            ctx.violate("sign", {"path": path, "body": body}, "differs", "same signature", "signature depends on field order")
        lid, pw = rand_hex(rng, 12), rng.choice(["password1", "p w", rand_hex(rng, 10)])
        if sec.encrypt_password(lid, pw) != ctx.driver.ask(f"cloud_password loginid={sx(lid)} password={sx(pw)}"):
            ctx.disagree("password", {"loginid": lid, "password": pw}, sec.encrypt_password(lid, pw), "model differs")
        ctx.case("sign", key=(path, tuple(body.items())), sample={"path": path, "fields": len(body)})


def run(ctx):
    rng = ctx.rng
    if not ctx.driver:
        return
    thorough = ctx.tier == "thorough"
    for position in ("absent", "first", "middle", "last", "duplicate"):
        for _ in range(8 if not thorough else 200):
            token_flow(ctx, rng, "token_selection", position)
    for region in ("US", "DE", "KR"):
        acct, pw = NetHomePlusCloud.CLOUD_CREDENTIALS[region]
        token_flow(ctx, rng, "regions", "middle", account=acct, password=pw)
    fault_sequences(ctx, rng)
    api_code_positions(ctx, rng)
    sign_correspondence(ctx, rng, 150 if not thorough else 5000)
    for _ in range(6 if not thorough else 100):
        for endian in ("little", "big"):
            discover_auto(ctx, rng, endian)
    for endian in ("little", "big"):
        for _ in range(2 if not thorough else 20):
            discover_auto(ctx, rng, endian, silent_on_wrong_token=True)
    for i, did in enumerate(BOUNDARY_IDS):
        discover_auto(ctx, rng, ("little", "big")[i % 2], device_id=did)
        if thorough:
            discover_auto(ctx, rng, ("big", "little")[i % 2], device_id=did)
    for n_fail in (3, 3, 4, 5):
        discover_login_recovers(ctx, rng, n_fail)


def search(ctx):
    run(ctx)


def replay(ctx, case):
    print(case["input"], "->", case["observed"], "expected", case["expected"])
    return 0
