"""Generated/CapTable.lean: the single-record meaning of every capability id.

The readers are lambdas local to `CapabilitiesResponse._parse_capabilities`, so they are observed,
not parsed: the real parser is run on a one-record body `[B5, 1, id_lo, id_hi, 1, v]` for every
(id, v) and the resulting dict recorded.  Emitted as one 256-bit bitmap per (id, key name).
C15 is *defined* relative to "each record interpreted alone", so this is the legitimate generated
input; the theorems are about the record loop and are parametric in this table.
"""


def gen_captable(_write, HEADER):
    from msmart.device.AC.command import CapabilitiesResponse, CapabilityId
    rows = []
    for cid in CapabilityId:
        names = None
        bitmaps = {}
        ok = True
        for v in range(256):
            body = bytes([0xB5, 1, int(cid) & 0xFF, int(cid) >> 8, 1, v])
            try:
                with memoryview(body) as mv:
                    r = CapabilitiesResponse(mv)
                d = dict(r.raw_capabilities)
            except Exception:
                ok = False
                break
            ks = list(d.keys())
            if names is None:
                names = ks
            elif ks != names:
                ok = False
                break
            for k, val in d.items():
                if not isinstance(val, bool):
                    ok = False
                    break
                if val:
                    bitmaps[k] = bitmaps.get(k, 0) | (1 << v)
        if not ok:
            # not representable as a table of boolean readers: the build of the model will fail
            # to find the id and the correspondence will report it
            rows.append((int(cid), None))
        else:
            rows.append((int(cid), [(k, bitmaps.get(k, 0)) for k in (names or [])]))
    out = HEADER + "namespace Msmart.Generated\n\n"
    out += "/-- per capability id: ordered list of (key name, bitmap over the first value byte).\n"
    out += "    Observed by running the real parser on one-record bodies. -/\n"
    out += "def capReaders : List (Nat × List (String × Nat)) := [\n"
    items = []
    for cid, rs in rows:
        if rs is None:
            continue
        items.append(f"  ({cid}, [" + ", ".join(f'("{k}", {b})' for k, b in rs) + "])")
    out += ",\n".join(items) + "\n]\n\n"
    out += "end Msmart.Generated\n"
    return _write("CapTable.lean", out)
