#!/venv/bin/python
"""Finding D13, shown on the real library without the verification harness.

A V3 unit (a minimal one, written here from the packet layout) that answers every handshake request 2.137 s after
receiving it - 137 ms after the library's read has timed out.  `LAN.authenticate()` retransmits the handshake request on
the same connection and then takes the unit's answer to the FIRST request as the answer to the SECOND one.  The library
derives nonce1 ^ key, the unit - which replaced its session key when it answered the second request - holds nonce2 ^ key,
and the data packet of the following `send()` is encrypted under a key that is not that of the latest handshake on its
connection (property C07).

    PYTHONPATH=/repo /venv/bin/python findings/D13_demo.py        (about 8 s; exit 1 = the finding reproduces)
"""
import asyncio
import os
import sys
from hashlib import sha256

from Crypto.Cipher import AES
from Crypto.Util.strxor import strxor

from msmart.device.AC.command import GetStateCommand
from msmart.lan import LAN

KEY, TOKEN = os.urandom(32), os.urandom(64)
LATE = 2.137


def cbc(key):
    return AES.new(key, AES.MODE_CBC, iv=bytes(16))


class Unit(asyncio.Protocol):
    log = []                      # what the unit saw, in order

    def connection_made(self, transport):
        self.t, self.buf, self.session_key, self.keys = transport, b"", None, []

    def data_received(self, data):
        self.buf += data
        while len(self.buf) >= 6 and len(self.buf) >= int.from_bytes(self.buf[2:4], "big") + 8:
            n = int.from_bytes(self.buf[2:4], "big") + 8
            packet, self.buf = self.buf[:n], self.buf[n:]
            ptype = packet[5] & 0xF
            if ptype == 0:        # handshake request: fresh nonce, the session key is replaced NOW, the answer comes late
                nonce = os.urandom(32)
                self.session_key = strxor(nonce, KEY)
                self.keys.append(self.session_key)
                body = cbc(KEY).encrypt(nonce) + sha256(nonce).digest()
                reply = b"\x83\x70" + len(body).to_bytes(2, "big") + b"\x20\x01" + packet[6:8] + body
                Unit.log.append(f"handshake request #{len(self.keys)} (counter {int.from_bytes(packet[6:8], 'big')})")
                asyncio.get_running_loop().call_later(LATE, self.t.write, reply)
            elif ptype == 6:      # encrypted request: under which of this connection's keys does the tag verify?
                def verifies(k):
                    plain = cbc(k).decrypt(packet[6:-32])
                    return sha256(packet[:6] + plain).digest() == packet[-32:]
                which = [i + 1 for i, k in enumerate(self.keys) if verifies(k)]
                Unit.log.append(f"data packet: verifies under the key of handshake {which or 'none'}; latest handshake is #{len(self.keys)}")
                Unit.stale = bool(which) and which[-1] != len(self.keys)


async def main():
    server = await asyncio.get_running_loop().create_server(Unit, "127.0.0.1", 0)
    port = server.sockets[0].getsockname()[1]
    lan = LAN("127.0.0.1", port, 1234)
    await lan.authenticate(TOKEN, KEY)
    print("authenticate() returned normally")
    try:
        await lan.send(GetStateCommand().tobytes(), retries=1)
    except Exception as e:  # noqa
        print("send() raised", type(e).__name__, "-", e)
    server.close()
    for line in Unit.log:
        print("unit:", line)
    if getattr(Unit, "stale", False):
        print("D13: the data packet is encrypted under the key of an EARLIER handshake than the latest one on its connection")
        return 1
    print("not reproduced")
    return 0

sys.exit(asyncio.run(main()))
