#!/venv/bin/python
"""Run the registered checks against the seeded defects in seeded/<id>/ (patch.diff + meta.json).

For each seeded change: `git -C /repo apply patch.diff`, run `./check <property> --tier quick` (and any
extra properties given with --also), record exit status and VIOLATION lines, `git -C /repo checkout -- .`.
Never leaves /repo modified (restores in a finally block; refuses to start on a dirty tree).

usage: tools/seeded_eval.py [ids...] [--also C01,C07] [--tier quick] [--write]   (--write updates meta.json)
"""
import argparse
import json
import os
import subprocess
import sys

VERIF = os.path.dirname(os.path.dirname(os.path.abspath(__file__)))
REPO = "/repo"


def sh(cmd, **kw):
    p = subprocess.run(cmd, shell=True, stdout=subprocess.PIPE, stderr=subprocess.STDOUT, text=True, **kw)
    return p.returncode, p.stdout


def main():
    ap = argparse.ArgumentParser()
    ap.add_argument("ids", nargs="*")
    ap.add_argument("--also", default="")
    ap.add_argument("--tier", default="quick")
    ap.add_argument("--write", action="store_true")
    ap.add_argument("--worktree", default=None,
                    help="apply the patches in this scratch git worktree of /repo (created if missing) and run the checks "
                         "with MSMART_REPO pointing at it, instead of patching /repo itself (for use while other runs need /repo)")
    a = ap.parse_args()
    global REPO
    env = dict(os.environ)
    env["VERIF_EVIDENCE_DIR"] = "/tmp/verif_seeded_evidence"      # never overwrite the evidence of the unchanged tree
    if a.worktree:
        if not os.path.isdir(a.worktree):
            sh(f"git -C /repo worktree add --detach {a.worktree} HEAD -q")
        else:
            sh(f"git -C {a.worktree} checkout -q --detach $(git -C /repo rev-parse HEAD)")
        REPO = a.worktree
        env["MSMART_REPO"] = a.worktree
    rc, out = sh(f"git -C {REPO} status --porcelain")
    if out.strip():
        print("refusing: /repo is not clean:\n" + out)
        return 2
    ids = a.ids or sorted(os.listdir(os.path.join(VERIF, "seeded")))
    summary = []
    for sid in ids:
        d = os.path.join(VERIF, "seeded", sid)
        if not os.path.isfile(os.path.join(d, "patch.diff")):
            continue
        meta = json.load(open(os.path.join(d, "meta.json")))
        props = [meta["property"]] + [p for p in a.also.split(",") if p and p != meta["property"]]
        res = {}
        try:
            rc, out = sh(f"git -C {REPO} apply {os.path.join(d, 'patch.diff')}")
            if rc != 0:
                print(sid, "patch does not apply:", out[-300:])
                summary.append((sid, meta["property"], "patch-does-not-apply"))
                continue
            for p in props:
                rc, out = sh(f"./check {p} --tier {a.tier}", cwd=VERIF, timeout=3600, env=env)
                lines = [l for l in out.split("\n") if l.startswith("VIOLATION")]
                tail = [l for l in out.strip().split("\n") if l.startswith(p + " ")]
                res[p] = {"exit": rc, "violation_lines": lines[:5], "summary": tail[-1] if tail else out[-200:]}
        finally:
            sh(f"git -C {REPO} checkout -- .")
            sh(f"git -C {REPO} clean -fdq")
        caught = [p for p, r in res.items() if r["exit"] == 1 and r["violation_lines"]]
        summary.append((sid, meta["property"], ",".join(caught) or "MISSED"))
        print(sid, meta["property"], "->", ",".join(caught) or "MISSED",
              "|", "; ".join(f"{p}: exit {r['exit']} {' '.join(r['violation_lines'][:1])}" for p, r in res.items()), flush=True)
        if a.write:
            meta["checks_with_patch"] = res
            meta["caught_by"] = caught
            json.dump(meta, open(os.path.join(d, "meta.json"), "w"), indent=1)
    # make sure the generated files and the build are back in the clean-tree state
    sh("/venv/bin/python harness/extract.py && cd lean && lake build msmart_driver Msmart", cwd=VERIF)  # back to /repo
    missed = [s for s in summary if s[2] == "MISSED"]
    print(f"{len(summary)} seeded changes, {len(summary) - len(missed)} caught, missed: {[m[0] for m in missed]}")
    return 0


if __name__ == "__main__":
    sys.exit(main())
