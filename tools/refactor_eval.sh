#!/bin/bash
# False-alarm regression: apply each behaviour-preserving refactor of refactors/<id>/patch.diff in a scratch worktree of /repo
# and run EVERY quick check against it (MSMART_REPO); none may exit non-zero.  /repo itself is not touched.
#   usage: [ONLY="S11 S12"] [PROPS="C04 C07"] tools/refactor_eval.sh [worktree, default /tmp/wt_eval]
cd "$(dirname "$0")/.."
WT=${1:-/tmp/wt_eval}
[ -d "$WT" ] || git -C /repo worktree add --detach "$WT" HEAD -q
git -C "$WT" checkout -q --detach "$(git -C /repo rev-parse HEAD)"
export MSMART_REPO=$WT VERIF_EVIDENCE_DIR=/tmp/verif_refactor_evidence
fail=0
for d in refactors/*/; do
  r=$(basename "$d")
  if [ -n "$ONLY" ] && ! echo " $ONLY " | grep -q " $r "; then continue; fi
  git -C "$WT" checkout -q -- . ; git -C "$WT" clean -fdq
  if ! git -C "$WT" apply "$PWD/$d/patch.diff" 2>/dev/null; then echo "$r: patch does not apply (tree moved on)"; continue; fi
  bad=""
  for p in ${PROPS:-C01 C02 C03 C04 C05 C06 C07 C08 C09 C10 C11 C12 C13 C14 C15 C16 C17 C18 C19 C20}; do
    ./check $p --tier quick >/tmp/refactor_eval_last.txt 2>&1 || { bad="$bad $p"; cp /tmp/refactor_eval_last.txt /tmp/refactor_fail_${r}_${p}.txt; }
  done
  echo "$r: alarms:[$bad ]"; [ -n "$bad" ] && fail=1
done
git -C "$WT" checkout -q -- .
/venv/bin/python harness/extract.py >/dev/null
exit $fail
