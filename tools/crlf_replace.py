#!/usr/bin/env python3
"""usage: crlf_replace.py FILE OLDFILE NEWFILE — replace text preserving the file's line endings"""
import sys
path, oldf, newf = sys.argv[1:4]
raw = open(path, "rb").read()
crlf = b"\r\n" in raw
old = open(oldf, "rb").read().replace(b"\r\n", b"\n")
new = open(newf, "rb").read().replace(b"\r\n", b"\n")
if crlf:
    old = old.replace(b"\n", b"\r\n")
    new = new.replace(b"\n", b"\r\n")
assert raw.count(old) == 1, f"old text occurs {raw.count(old)} times"
open(path, "wb").write(raw.replace(old, new))
