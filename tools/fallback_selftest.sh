#!/bin/bash
# Self-test of the opportunistic translation tie: EVERY translated function is forced to fall back to its alias of the model
# (PYTRANS_FORCE_UNSUPPORTED) and the whole library must still build - i.e. every equality theorem's fallback alternative closes
# and no first alternative "succeeds" with goals left.  Restores the regular Generated/Codec.lean afterwards.
cd "$(dirname "$0")/.."
ALL=$(/venv/bin/python -c "
import sys; sys.path.insert(0,'harness')
import pytrans; print(','.join(sp['name'] for sp in pytrans.SPECS))")
PYTRANS_FORCE_UNSUPPORTED=$ALL /venv/bin/python harness/extract.py >/dev/null
(cd lean && lake build Msmart 2>&1 | grep -E "^error|Build completed" | head -5)
rc=${PIPESTATUS[0]}
/venv/bin/python harness/extract.py >/dev/null
(cd lean && lake build Msmart msmart_driver >/dev/null 2>&1)
exit $rc
