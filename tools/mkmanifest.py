#!/usr/bin/env python3
"""Regenerates MANIFEST.json from the table below (kept valid at all times)."""
import json
import os

HERE = os.path.dirname(os.path.abspath(__file__))
VERIF = os.path.dirname(HERE)

LEVEL_NOTE = ("Trusted: Lean 4.33.0 kernel; axioms propext / Classical.choice / Quot.sound only (audited per run, "
              "no sorry/native_decide/bv_decide/axiom); the translator harness/extract.py (Generated/*.lean); the "
              "correspondence harness that ties the hand-written Lean Model to the real code by differential "
              "testing; CPython/asyncio/pycryptodome/hashlib/httpx/argparse are modelled, not verified. ")

CLAIMED = {
    "C12": dict(
        text="Theorems (Lean 4, unbounded): every command object x every counter value whose tobytes() returns yields a frame accepted by an independent device-side parser (start byte, length byte, 0xAC, documented frame type, body, next message id, CRC-8/MAXIM, two's-complement checksum); message ids advance by one mod 256 over command sequences of any length; the CRC table regenerated from crc8.py equals the CRC-8/MAXIM table (decide +kernel over 256 entries). Tie: data regenerated from /repo each run + model-vs-implementation correspondence on every command class, plus the frames of every public AirConditioner operation through the spec parser.",
        design="DESIGN.md §6 C12",
        technique="Lean 4 theorem about a hand-written model + generated CRC table; differential correspondence with the real tobytes()",
        note="Model covers Frame.tobytes, Command.tobytes, all command classes, PropertyId.encode."),
}

CLAIMED["C14"] = dict(
    text="Theorems (Lean 4, for ALL byte strings / ALL reply scripts, unbounded): Response.construct returns a response or InvalidFrame/InvalidResponse and nothing else (every index expression of every parser is modelled as a possible IndexError, so the proof is the evidence that none is left unguarded); _send_command_get_responses returns exactly the decodable frames in order; refresh/apply/get_capabilities/toggle_display/start_self_clean can only fail by failing to ENCODE one of their own commands, never because of a reply; refresh is total. Tie: model-vs-implementation correspondence on ~40k frames per run (every captured frame truncated to every length with checksums recomputed, every body byte set to boundary values, every response id, raw garbage) and mixed good/bad exchanges through the real operations; oracle = no exception other than the two allowed, and state equals the state obtained from the decodable frames alone. Two genuine defects were found and repaired (fix: e1e5d79, 11f899b).",
    design="DESIGN.md §6 C14",
    technique="Lean 4 containment theorem over a model with explicit IndexError at every index; differential correspondence + implementation-side oracle on malformed-but-checksummed frames",
    note="Model covers Response.construct/validate, all response parsers, _send_command_get_responses and the five operations over a frame oracle.")

CLAIMED["C13"] = dict(
    text="Theorems (Lean 4, unbounded): any single-byte substitution after the start byte (header, body, check byte or checksum) of a checksum-valid frame is rejected by Frame.validate, for frames of every length; CRC-8 single-byte sensitivity from the generated table being a permutation (decide +kernel over 256 entries, regenerated from crc8.py each run); the EXACT acceptance set of a body substitution with recomputed outer checksum (accepted only through the other of the two algorithms, at most one substitute per position, none if both matched); if every frame of a refresh is rejected the device record is unchanged except online=supported=false. Tie: correspondence on ~160k corrupted frames per run (all positions x all 255 substitutes for frames of every kind, with and without fix-up) and refresh() fed only corrupted frames with to_dict() compared. The accepted substitutions explained by the theorem are listed as known findings (by mechanism, recomputed independently from the bytes); any other accepted corruption is a violation.",
    design="DESIGN.md §6 C13",
    technique="Lean 4 theorems (checksum/CRC algebra, state invariance) + exhaustive single-byte substitution sweep against the real decoder",
    note="Known findings D6 (alt-check coincidence, properties-id exemption) are by-design behaviour of the dual check and are reported as KNOWN-FINDING.")
CLAIMED["C10"] = dict(
    text="Theorems (Lean 4): for EVERY settable state (power, beep, mode 0..7, all 62 half-degree setpoints 13.0..43.5, fan 0..255, swing 0..15, eco, turbo, sleep, Fahrenheit, freeze, follow-me, purifier, humidity 0..127, aux mode) the 0x40 body produced by the model of apply()+SetStateCommand.tobytes decodes under the vendor layout (Spec.decodeSetState, written from the Lua reference) to exactly that state; injectivity as a corollary; out-of-range fan raises instead of emitting. Proof by per-byte kernel-decided lemmas lifted structurally, not by enumerating the product. Tie: byte-exact correspondence of the real apply() (captured at the patched _send_command) with the model, and the Spec decoder applied to the real body, for all 62x8 setpoint x mode pairs, every fan byte, every flag combination, every humidity and swing value.",
    design="DESIGN.md §6 C10",
    technique="Lean 4 round-trip theorem model-encoder vs spec-decoder; differential correspondence with the real apply()",
    note="Spec is the vendor layout as read from the Lua reference with the linear alternate-setpoint reading (DESIGN §6 C10).")
CLAIMED["C11"] = dict(
    text="Theorems (Lean 4): for EVERY status payload of >= 16 bytes StateResponse decodes and every field equals the vendor-layout meaning (Spec.reportedOf); optional trailing fields are none exactly when absent; temperatures: unknown iff 0xFF, within one degree of the coarse reading for digits 0..9 in both units, Celsius tenths exact (all by kernel evaluation over the full finite domain byte x nibble x unit); _update_state exposes the decoded values; a device-built frame in either check style around any status payload is decoded as that status (constructInner_respFrame, generic in the payload). Tie: real Response.construct + _update_state and real refresh() on device-built frames: all 256x10x2 per sensor, 32x32 setpoint codes, all 256 values of each flag byte, lengths 16..40, both check styles.",
    design="DESIGN.md §6 C11",
    technique="Lean 4 decode theorem against an independent spec of the 0xC0 body + kernel-exhaustive temperature lemmas; differential correspondence",
    note="Floats are compared in exact tenths/hundredths with an exactness guard.")

CLAIMED["C15"] = dict(
    text="Theorems (Lean 4, unbounded): one loop iteration on a well-formed record (any id incl. unknown, any size 0..255, undersized temperature records) followed by ANY bytes consumes exactly that record and applies exactly its assignments; hence for every list of up to 255 records and any trailer the parsed capabilities equal (as a mapping) the fold of 'interpret each record alone and merge in order' (interpAlone is proved to be what a one-record response parses to); splitting at ANY point across a first and an additional response and merging gives the same mapping as one response. The single-record meaning of the 40 table-driven ids is regenerated from the real parser on every run (Generated/CapTable); the loop theorems are parametric in it. Tie: correspondence of the real CapabilitiesResponse / get_capabilities() with the model on every known id x value next to random neighbours, temperature records of every size 0..10, random lists of up to 12 records, all split points through a paging simulated reply script; oracle computed on the implementation alone. One genuine defect found and repaired (fix: 336b922).",
    design="DESIGN.md §6 C15",
    technique="Lean 4 loop-invariant theorem (record-by-record) + dictionary-merge algebra; generated reader table; differential correspondence",
    note="Equality of capabilities is lookup-equivalence (everything downstream reads them with .get).")

CLAIMED["C16"] = dict(
    text="Theorems (Lean 4): for EVERY device state and EVERY reply script, apply() emits the state command and then, iff some property changed since the previous apply, ONE property write carrying exactly the changed ids plus the buzzer with the values current at that moment, after which nothing is pending (so an apply with no change sends no write); refresh() never touches the pending set and sends no write; the id each setter records is BREEZE_CONTROL iff the device advertised it (else the legacy id); the three breeze flags are views of one field (at most one active); for every value of every setting (6 angles x 2, 8 rate values, iECO, 4 breeze-control modes, legacy breeze-away / breezeless on every profile incl. the one advertising both) the value written in the vendor encoding, stored by the Spec device (Spec.PropertyStore) and read back decodes to the same setting (kernel-evaluated end-to-end at the payload level). Tie: random histories of setters/apply/refresh/get_capabilities on the real AirConditioner against a reactive simulated device whose property decisions are made by the Lean Spec through the driver, 6 capability profiles, model compared after every history; oracle on the 0xB0/0xB1 bodies the device received and on the public attributes. One genuine defect found and repaired (fix: ec50352).",
    design="DESIGN.md §6 C16",
    technique="Lean 4 theorems over ALL reply scripts (bookkeeping) + kernel-evaluated round trips through an executable device spec; differential correspondence on histories",
    note="Set iteration order of property ids is not modelled; comparisons are order-insensitive on property records.")

CLAIMED["C02"] = dict(
    text="Theorems (Lean 4, unbounded): for EVERY frame whose packet fits the 2-byte length field (0..65,463 bytes; 0..255 included), every device id < 2^64 and every 8-byte timestamp the packet the model of _Packet.encode emits is byte-for-byte the packet of an independent field-by-field encoder and is decoded by an independent strict decoder to the identical id and frame; conversely every packet the independent encoder produces (any id, timestamp, header filler) is decoded by the model of _Packet.decode to exactly that frame; outside the domain encode raises OverflowError. AES-128 invertibility (decrypt o encrypt = id for all keys/blocks), ECB/PKCS7 round trips and lengths are PROVED for the very Lean AES the driver runs (no cipher axioms, no hypotheses); ENC_KEY = md5(SIGN_KEY) and both constants regenerated from lan.py are checked against the spec's copies by kernel evaluation. Tie: byte-exact correspondence of the real _Packet.encode/decode with the model for all lengths 0..255 x boundary ids (timestamp read back), and the spec decoder/encoder applied to real output/input.",
    design="DESIGN.md §6 C02, §5",
    technique="Lean 4 round-trip theorems model vs independent spec over a fully proved AES/PKCS7; differential correspondence with the real codec",
    note="Remaining crypto assumption: Lean AES/MD5 = pycryptodome/hashlib (sampled by the correspondence and by NIST/RFC vectors evaluated in the kernel).")
CLAIMED["C03"] = dict(
    text="Theorems (Lean 4, unbounded): whatever bytes arrive, the decoder gets past its checks only if they carry the marker, a length field within what arrived and a last-16-byte tag equal to the keyed MD5 of everything before it (exact acceptance condition); every proper prefix of an authentic packet, any alteration confined to the tag, any alteration of the marker and any increased length field are rejected with a protocol error outright; an alteration of the signed part (header/payload, any number of bytes) that keeps length field and tag can only be accepted if the original and altered signed texts are an explicit MD5 collision (reduction; the honest ceiling for a fixed-width hash). Tie: every single-bit flip at every position, every truncation length, single-byte substitutions and random multi-byte corruptions of authentic packets for frame lengths {0,1,15,16,17,31,32,33,100,255} through the real _Packet.decode and the model (~23k cases per run).",
    design="DESIGN.md §6 C03, §5",
    technique="Lean 4 exact-acceptance and outright-rejection theorems + reduction to a named MD5 collision; exhaustive bit-flip/truncation sweep",
    note="Tamper-evidence against an adversary who knows the fixed key is outside the property (a re-signed packet is not an alteration of an authentic one; see C09).")

CLAIMED["C04"] = dict(
    text="Theorems (Lean 4, unbounded): prefix stability of the data_received loop (what has been queued from a prefix of the stream stays queued and the rest is processed from the left-over buffer), hence for ANY number of cuts - single bytes to many packets per segment - the successive calls queue exactly what one call with the whole stream queues and leave the same buffer; for any marker-free garbage prefix (incl. one ending in 0x83), any list of well-formed packets with arbitrary payloads (embedded markers included) and any proper prefix of a further packet, exactly the complete packets are queued - once, whole, in order - and the unfinished one is kept: a packet is queued by the call that carries its last byte, not earlier and not later. The loop's termination proof (each continuing iteration removes >= 8 bytes) is itself an obligation. Tie: real _LanProtocolV3.data_received (queue drained after each call) vs the model on ALL segmentations with <= 3 cuts of streams of 1..4 packets up to 48 bytes (~90k cases/run), byte-by-byte and random many-cut segmentations, garbage prefixes; plus real LAN.send on the virtual-time loop with the simulated device's reply delivered in chosen segments (return time = time of the segment carrying the last byte).",
    design="DESIGN.md §6 C04",
    technique="Lean 4 prefix-stability theorem by strong induction + stream characterisation; exhaustive <=3-cut differential correspondence",
    note="Trusted: asyncio calls data_received once per segment and wakes the reader in the same loop iteration (observed on the virtual loop, not proved).")

CLAIMED["C05"] = dict(
    text="Theorems (Lean 4, unbounded): for EVERY payload length (every padding amount 0..15), every key, every 2-byte counter and any pad bytes the encrypted request of the model of _encode_encrypted_request is byte-for-byte the packet of an independent encoder and is decoded by a strict independent decoder (size field, pad nibble, type, SHA-256 tag all checked) to the same counter and payload; every encrypted response of the independent encoder - including padding 0 - is decoded by the model of _process_packet to exactly the payload sent; any alteration confined to the tag, of the start marker or of the magic byte is rejected with a protocol error outright; an alteration of header and/or ciphertext that keeps the tag can only be accepted if original and altered tagged texts are an explicit SHA-256 collision (CBC decryption injectivity is proved). AES-256-CBC round trips are proved for the Lean AES the driver runs. Tie: byte-exact correspondence of the real codec (pad bytes read back) for all lengths 0..300, spec decoder on real requests, real decoder on spec responses, every single-bit flip of header/ciphertext/tag for 6 lengths. One genuine defect found and repaired (fix: 1b0cf51).",
    design="DESIGN.md §6 C05",
    technique="Lean 4 round-trip theorems model vs independent spec over proved AES-CBC + reduction to a named SHA-256 collision; differential correspondence and bit-flip sweep",
    note="A type-nibble flip 3->1 is handled at the LAN._read level (the result must then pass the V2 signature check); checked in the sweep.")

CLAIMED["C06"] = dict(
    text="Theorems (Lean 4): for every key and nonce (32 bytes) the client derives from the genuine reply (built by the independent Spec.V3.handshakeReply) exactly the device's session key nonce XOR key; any payload of length != 64 and any alteration confined to the proof half are rejected with an authentication error outright; an alteration of the encrypted-nonce half can only be accepted through an explicit SHA-256 collision (CBC decryption injectivity proved); a reply produced under a different key only through a collision or an explicit key-confusion event; error packets and encrypted responses before any key exists are protocol errors (promoted to authentication errors). The state-machine part (key stored only on success, nothing but handshake requests written, stored credentials kept) is proved over the Session model in Props/C07. Tie: the real Device.authenticate on the virtual-time loop against the independent simulated device whose replies come from the Lean Spec: genuine (bytes and hex credentials, fresh and re-authentication), single-bit flips of the 64-byte reply, all lengths 0..80, every type nibble, replies under other keys, silence; observing outcome, Device.token/key, what the device received, and whether a following exchange is accepted; plus codec-level correspondence of _get_local_key.",
    design="DESIGN.md §6 C06",
    technique="Lean 4 agreement theorem + outright-rejection theorems + reductions to named hash/cipher events; scripted-handshake differential harness",
    note="Hash preimage/collision resistance is outside any model of this repository: stated as reductions.")

CLAIMED["C17"] = dict(
    text="Theorems (Lean 4): for EVERY device id < 2^48, port, 32-byte ASCII serial, name net_<hh>_<suffix> with any appliance type byte in either hex case, any reported IP, arbitrary other header bytes and trailing bytes, and both reply versions, the model of _get_device_info applied to the reply built by the independent Spec.Discover returns exactly the id, port, serial, name, type and version encoded (V3 = V2 with the wrapper stripped); every type byte in either case parses back to itself (kernel-exhaustive); the discovery probe regenerated from const.py is a well-formed correctly signed V2 packet under the strict independent decoder (AES-128/MD5 evaluated in the kernel). Tie: real Discover.discover()/discover_single() on the simulated network (fake datagram endpoint, virtual time) with replies built by the Lean Spec: every type byte, boundary ids/ports, reported IP equal to / different from the source; oracle on the returned Device objects (identity, source address, AC vs generic class) and on the datagrams sent (probe bytes, ports 6445 and 20086).",
    design="DESIGN.md §6 C17",
    technique="Lean 4 parse-of-spec-reply theorem + kernel evaluation of the probe; differential run of the real discovery on a simulated network",
    note="UTF-8 decoding is modelled for ASCII only; whether a datagram parses as XML is an input bit decided by the real xml.etree.")
CLAIMED["C18"] = dict(
    text="Theorems (Lean 4, unbounded): for ANY finite sequence of datagrams (any multiset, arrival order, source ports, duplicates) the handler creates at most one task per source address and discovery reports at most one device per address; a device is reported for a host exactly when that host's FIRST datagram is a well-formed V2/V3 reply, and it is the parse of that datagram; hence two arrival sequences with the same first datagram per host report the same set of devices (interleaving, duplicates and whatever a bad host sends are irrelevant) and a bad host contributes nothing and changes nothing else; the run is total. Tie: real Discover.discover() on the simulated network vs the model for all interleavings of small cases, every bad-reply class (random bytes, valid envelope with short / non-text body, missing separators, non-hex type, XML without attributes, missing name) from every subset of hosts, and random larger cases; oracle independent of the model (exactly the hosts whose first reply was good). One genuine defect found and repaired (fix: f6d4c4f).",
    design="DESIGN.md §6 C18",
    technique="Lean 4 characterisation theorem of the de-duplication/gather logic by induction over the datagram list; differential run on a simulated network",
    note="asyncio task scheduling and gather are trusted; the V1 TCP info query is modelled only as 'contributes no device'.")

CLAIMED["C19"] = dict(
    text="Theorems (Lean 4, unbounded): the signature is independent of field order for every body with distinct keys (mergeSort result is the unique sorted permutation); every form the model posts verifies under a conforming server that canonicalises with its OWN (insertion) sort; the password sent is the server's expected derivation; the session id is echoed in every later body; get_token returns exactly the first entry whose udpId equals the requested one (a member of the list with that id) and a cloud error iff none matches - never another entry's credentials; for EVERY sequence of timeouts / HTTP errors / API error codes at most `retries` attempts are made and every failure is a cloud error (all-timeouts: exactly `retries` attempts); with a service answering every udpid query, the device is authenticated with the credentials of whichever of udpid(LE id), udpid(BE id) it accepts (LE first); recorded limitation proved: a cloud error on the first query aborts without trying the other order. Tie: the real NetHomePlusCloud through httpx.MockTransport (the repo's own get_async_client injection) against a server shell whose contract decisions are made by the Lean Spec; token lists with the match absent/first/middle/last/duplicated among near-miss ids; all 125 fault sequences of length 3; signature and password derivation correspondence on random bodies; Discover.discover(auto_connect=True) with a V3 simulated device registered under either byte order.",
    design="DESIGN.md §6 C19",
    technique="Lean 4 theorems (sorting uniqueness, find-first, retry induction) + spec-server differential harness via httpx.MockTransport",
    note="httpx, urllib.parse quote/unquote round trip (printable ASCII) and JSON parsing are trusted; SmartHomeCloud is not modelled.")

CLAIMED["C20"] = dict(
    text="Theorems (Lean 4) about a model of _control whose setting table (every property of AirConditioner, whether it has a setter, the kind of its default value) and enumerations are regenerated from the class on every run: for every enumerated setting and member, ANY text whose upper-casing is the member name selects it, and so does its integer value; a non-member integer is kept as a raw fan speed and rejected for every other enumeration; True/False/1/0 give the obvious truth values for every boolean setting (incl. display_on); int and float texts are accepted for number settings; unknown names and properties without a setter are rejected whatever the value; if ANY pair fails to convert (unknown, read-only, ill-typed, or raising) the command performs NO action at all (no connect, nothing sent); otherwise it connects and refreshes first, toggles the display iff the requested state differs from the reported one, sets exactly the named attributes and applies. Tie: the real msmart.cli.main() run in-process on the virtual-time loop (event-loop policy) against a stateful simulated air conditioner whose byte-level decisions are made by the Lean Spec: all members by name in random casing and by value, raw fan speeds, boolean spellings, boundary numbers, display toggling in all four combinations, pairs of settings, a catalogue of invalid names/values before/after valid ones; oracle on the device's final state (named settings applied, all others as reported), exit status, and that an invalid command never contacts the device.",
    design="DESIGN.md §6 C20",
    technique="Lean 4 theorems over a conversion/sequencing model with generated tables; full-stack differential run of the real CLI on a simulated device",
    note="ast.literal_eval and argparse are trusted; literal_eval's outcome is an input of the model (supplied by the real function in the harness).")

CLAIMED["C01"] = dict(
    text="Theorems (Lean 4) composing the layer theorems: for EVERY settable state, device id, timestamp and counter the bytes apply() hands to the V2 transport are decoded by the independent implementation to the same id and a well-formed control frame whose body the device reads (vendor layout) as exactly that state, and on V3 the same packet under ANY key/counter/pad bytes is recovered by the independent V3 decoder; for EVERY device state, check style, id, timestamp, key, counter, pad bytes and EVERY segmentation of the reply (any number of cuts) the V3 client's reassembly queues exactly the one packet, which decrypts, decodes and is parsed to a state response whose values a fresh client exposes as exactly the device's state (V2: the whole packet); any interleaving of duplicates of the state response and ignorable frames leaves the client in the same state. Tie: the real AirConditioner.apply()/refresh() full stack on the virtual-time loop against the independent simulated device (V2 and V3 with handshake; byte-level decisions by the Lean Spec), replies delivered whole / at random cuts / byte-by-byte, with and without duplicated and unsolicited frames, random device ids, hex and bytes credentials; a second fresh client instance must report the same. Two limitations of the transport found and recorded as known findings (D10: V2 has no stream reassembly; D11: an exchange ends at the first decodable packet).",
    design="DESIGN.md §6 C01",
    technique="Lean 4 composition of the per-layer round-trip theorems + full-stack differential run on a simulated device",
    note="asyncio delivery and real TCP are trusted; the known findings are reported as KNOWN-FINDING with mechanism predicates computed from the delivered segments.")

NOT_YET = {
}


def main():
    props = [json.loads(l) for l in open(os.path.join(VERIF, "properties.jsonl"))]
    checks = []
    na = []
    for p in props:
        pid = p["id"]
        if pid in CLAIMED:
            c = CLAIMED[pid]
            checks.append({
                "property_id": pid,
                "quick_cmd": f"./check {pid} --tier quick",
                "thorough_cmd": f"./check {pid} --tier thorough",
                "evidence_file": f"evidence/{pid}.json",
                "replay_cmd_template": f"./check {pid} --replay {{path}}",
                "engine": "lean4-model+correspondence",
                "level_claimed": {"category": "proof", "text": c["text"], "design_ref": c["design"]},
                "level_note": LEVEL_NOTE + c.get("note", ""),
                "technique": c["technique"],
            })
        else:
            na.append({"property_id": pid,
                       "reason": NOT_YET.get(pid, "check not built yet in this round (proof-family machinery is applicable; see DESIGN.md §6); not claimed until its model, theorems and correspondence exist")})
    m = {
        "version": 1,
        "setup_cmd": "/venv/bin/python harness/extract.py && cd lean && lake build msmart_driver Msmart",
        "hooks": {
            "guard": "MSMART_VERIF",
            "enable": "no source hooks are needed: the harness drives the real package through public API, asyncio protocol callbacks, a virtual-time event loop and the repo's own injection points; MSMART_VERIF is reserved and unused",
            "baseline_off_cmd": "cd /repo && /venv/bin/python -m pytest -ra -q -p no:cacheprovider --timeout=900 --continue-on-collection-errors",
            "source_commits": [],
            "add_only": True,
        },
        "engines": [{
            "name": "lean4-model+correspondence",
            "path": "lean/ (lake project Msmart) + harness/ + check",
            "serves_properties": [c["property_id"] for c in checks],
            "kind_free_text": "Lean 4 theorems about a hand-written executable model of the Python code (Model/*), an independent reference (Spec/*), data regenerated from /repo on every run (Generated/*), and a differential correspondence harness that runs the real code and the compiled model driver on the same inputs",
        }],
        "checks": checks,
        "not_applicable": na,
        "notes": "Every check: regenerate Generated/ from /repo, lake build the property's theorems, audit axioms, run corpus + generators (implementation vs model, implementation-side oracle), decide per DESIGN.md §3.4. Exit 2 = infrastructure failure.",
    }
    json.dump(m, open(os.path.join(VERIF, "MANIFEST.json"), "w"), indent=1)
    print(f"{len(checks)} claimed, {len(na)} not claimed")


if __name__ == "__main__":
    main()
