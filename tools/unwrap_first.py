#!/usr/bin/env python3
"""debug helper: copy a Lemmas/*.lean file with every `first | ( real proof ) | fallback` replaced by the real proof alone,
so that the elaboration errors of the real proof become visible.  usage: unwrap_first.py <file.lean> > /tmp/x.lean"""
import re
import sys
s = open(sys.argv[1]).read()
s = re.sub(r"  first\n  \| \(\n(.*?)\)\n  \| [^\n]*\n", lambda m: m.group(1) + "\n", s, flags=re.S)
sys.stdout.write(s)
