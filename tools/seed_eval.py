#!/usr/bin/env python3
"""Evaluate a seeded defect: confirm it in a scratch worktree (tests unchanged, demo fails with /
passes without), then run the property's check against /repo with the patch applied and undo it.

usage: seed_eval.py <src_dir_with_patch.diff_demo.py> <property id> <scratch worktree> [--name NAME] [--also Cyy,...]
Writes /verif/seeded/<NAME>/{patch.diff,demo.py,notes.txt,meta.json}."""
import json
import os
import shutil
import subprocess
import sys

VERIF = os.path.dirname(os.path.dirname(os.path.abspath(__file__)))


def sh(cmd, cwd=None, env=None, timeout=1800):
    p = subprocess.run(cmd, shell=True, cwd=cwd, env=env, stdout=subprocess.PIPE, stderr=subprocess.STDOUT, text=True, timeout=timeout)
    return p.returncode, p.stdout


def main():
    src, pid, wt = sys.argv[1:4]
    name = pid
    also = []
    if "--name" in sys.argv:
        name = sys.argv[sys.argv.index("--name") + 1]
    if "--also" in sys.argv:
        also = sys.argv[sys.argv.index("--also") + 1].split(",")
    patch = os.path.join(src, "patch.diff")
    demo = os.path.join(src, "demo.py")
    env = dict(os.environ, PYTHONPATH=wt)
    meta = {"property": pid, "source": src}
    sh("git checkout -- . && git clean -fdq", cwd=wt)
    rc0, out0 = sh(f"/venv/bin/python {demo}", cwd=wt, env=env, timeout=300)
    meta["demo_without_patch_exit"] = rc0
    rc, out = sh(f"git apply {patch}", cwd=wt)
    if rc != 0:
        print("patch does not apply in scratch worktree:", out)
        return 2
    rc_t, out_t = sh("/venv/bin/python -m pytest -q -p no:cacheprovider msmart 2>&1 | tail -3", cwd=wt, env=env, timeout=900)
    meta["tests_with_patch"] = out_t.strip().split("\n")[-1]
    rc1, out1 = sh(f"/venv/bin/python {demo}", cwd=wt, env=env, timeout=300)
    meta["demo_with_patch_exit"] = rc1
    meta["demo_with_patch_tail"] = out1.strip()[-400:]
    sh("git checkout -- . && git clean -fdq", cwd=wt)
    confirmed = rc0 == 0 and rc1 != 0 and "65 passed" in meta["tests_with_patch"] and "6 failed" in meta["tests_with_patch"]
    meta["confirmed"] = confirmed
    # now the checks against /repo
    rc, out = sh("git status --porcelain", cwd="/repo")
    if out.strip():
        print("/repo is dirty, refusing")
        return 2
    rc, out = sh(f"git apply {patch}", cwd="/repo")
    if rc != 0:
        print("patch does not apply to /repo:", out)
        return 2
    results = {}
    try:
        for p in [pid] + also:
            rcq, outq = sh(f"./check {p} --tier quick", cwd=VERIF, timeout=3000)
            lines = [l for l in outq.strip().split("\n") if l.startswith(("VIOLATION", "KNOWN-FINDING"))]
            results[p] = {"exit": rcq, "violation_lines": [l[:200] for l in lines][:4], "summary": outq.strip().split("\n")[-1][:300]}
    finally:
        sh("git checkout -- .", cwd="/repo")
    meta["checks_with_patch"] = results
    meta["caught_by"] = [p for p, r in results.items() if r["exit"] == 1]
    dst = os.path.join(VERIF, "seeded", name)
    os.makedirs(dst, exist_ok=True)
    shutil.copy(patch, os.path.join(dst, "patch.diff"))
    shutil.copy(demo, os.path.join(dst, "demo.py"))
    notes = os.path.join(src, "notes.txt")
    if os.path.exists(notes):
        shutil.copy(notes, os.path.join(dst, "notes.txt"))
        meta["needs"] = open(notes).read()[:1500]
    meta["what_i_ran"] = ("scratch worktree: demo without patch, git apply, pytest msmart, demo with patch, git checkout; "
                          "then git -C /repo apply, ./check <id> --tier quick, git -C /repo checkout -- .")
    json.dump(meta, open(os.path.join(dst, "meta.json"), "w"), indent=1)
    print(json.dumps({k: meta[k] for k in ("property", "confirmed", "tests_with_patch", "demo_without_patch_exit", "demo_with_patch_exit", "caught_by")}))
    for p, r in results.items():
        print(" ", p, "exit", r["exit"], "|", r["summary"][:160])
    return 0


if __name__ == "__main__":
    sys.exit(main())
